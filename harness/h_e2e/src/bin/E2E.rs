//! End-to-end trace harness: real s2n-quic endpoints on the deterministic testing IO provider.
//!
//! Components (integer line protocol of h_common):
//!   e2e_stream  - client/server stream transfer under a seeded faulty network (C01, C02, C03, C12)
//!   e2e_amp     - handshake + non-connection datagrams, wire log per address (C11)
//!   e2e_inject  - established connection with an on-path attacker (C06)
//!
//! Every random choice derives from the case's seed (own splitmix64 streams; the bach executor is
//! seeded with the same seed).  Virtual time only.  The only randomness not under control is the
//! TLS library's own key material (it does not influence any decision taken here; it can move
//! handshake datagram sizes by a byte or two because ECDSA signatures are DER encoded).
//!
//! The traces printed here are judged by the Coq-extracted monitors of coq/model/E2E.v.  Running
//! a monitor on a trace is testing, not proof; what is proved (coq/proofs/E2EProofs.v) is that
//! a monitor that answers `true` implies the Prop-level statement over that trace.

use bytes::Bytes;
use h_common::{Cur, V};
use s2n_codec::DecoderBufferMut;
use s2n_quic::{
    client::Connect,
    provider::{
        event::{self, events},
        io::testing::{
            self as io,
            network::{Buffers, Network, Packet},
            primary, spawn, test_seed, time, Handle,
        },
        limits::Limits,
    },
    stream::PeerStream,
    Client, Server,
};
use s2n_quic_core::{
    crypto::tls::testing::certificates,
    event::api::Subject,
    frame::{ack_elicitation::AckElicitable, FrameMut},
    packet::{
        interceptor::{Interceptor, Packet as IPacket},
        number::PacketNumberSpace,
    },
};
use std::{
    collections::{HashMap, HashSet},
    sync::{Arc, Mutex},
    time::Duration,
};

// ------------------------------------------------------------------------------------------
// deterministic pseudo-randomness
// ------------------------------------------------------------------------------------------

#[inline]
fn mix(mut z: u64) -> u64 {
    z = z.wrapping_add(0x9E37_79B9_7F4A_7C15);
    z = (z ^ (z >> 30)).wrapping_mul(0xBF58_476D_1CE4_E5B9);
    z = (z ^ (z >> 27)).wrapping_mul(0x94D0_49BB_1331_11EB);
    z ^ (z >> 31)
}

#[derive(Clone)]
struct Rng(u64);

impl Rng {
    fn new(seed: u64, stream: u64) -> Self {
        Rng(mix(seed ^ mix(stream.wrapping_mul(0xA24B_AED4_963E_E407))))
    }
    fn next(&mut self) -> u64 {
        self.0 = self.0.wrapping_add(0x9E37_79B9_7F4A_7C15);
        mix(self.0)
    }
    fn below(&mut self, n: u64) -> u64 {
        if n == 0 {
            0
        } else {
            self.next() % n
        }
    }
    fn permille(&mut self, p: u64) -> bool {
        p > 0 && self.below(1000) < p
    }
}

/// random provider of the endpoints (connection ids, reset tokens, pto jitter, ...)
struct Random(Rng);

impl s2n_quic::provider::random::Provider for Random {
    type Generator = Self;
    type Error = core::convert::Infallible;
    fn start(self) -> Result<Self, Self::Error> {
        Ok(self)
    }
}

impl s2n_quic::provider::random::Generator for Random {
    fn public_random_fill(&mut self, dest: &mut [u8]) {
        for b in dest.iter_mut() {
            *b = self.0.next() as u8;
        }
    }
    fn private_random_fill(&mut self, dest: &mut [u8]) {
        for b in dest.iter_mut() {
            *b = (self.0.next() >> 8) as u8;
        }
    }
}

/// keyed stateless reset tokens (the default provider of s2n-quic never sends stateless resets)
struct ResetTokens(u64);

impl s2n_quic::provider::stateless_reset_token::Provider for ResetTokens {
    type Generator = Self;
    type Error = core::convert::Infallible;
    fn start(self) -> Result<Self, Self::Error> {
        Ok(self)
    }
}

impl s2n_quic::provider::stateless_reset_token::Generator for ResetTokens {
    const ENABLED: bool = true;
    fn generate(&mut self, local_connection_id: &[u8]) -> s2n_quic_core::stateless_reset::Token {
        let mut h = self.0;
        for b in local_connection_id {
            h = mix(h ^ *b as u64);
        }
        let mut t = [0u8; 16];
        t[..8].copy_from_slice(&mix(h ^ 1).to_le_bytes());
        t[8..].copy_from_slice(&mix(h ^ 2).to_le_bytes());
        t.into()
    }
}

/// the application payload: a fixed function of (seed, stream id, direction, absolute offset);
/// 8 bytes per 64-bit block so that a displacement by any amount shows
#[inline]
fn data_word(seed: u64, sid: u64, dir: u64, block: u64) -> u64 {
    mix(seed ^ mix(sid.wrapping_mul(4).wrapping_add(dir).wrapping_add(0x5151)) ^ block.wrapping_mul(0xD6E8_FEB8_6659_FD93))
}

#[inline]
fn data_byte(seed: u64, sid: u64, dir: u64, off: u64) -> u8 {
    (data_word(seed, sid, dir, off / 8) >> (8 * (off % 8))) as u8
}

fn data_fill(seed: u64, sid: u64, dir: u64, off: u64, len: usize) -> Vec<u8> {
    let mut v = Vec::with_capacity(len);
    let mut o = off;
    let end = off + len as u64;
    while o < end {
        let w = data_word(seed, sid, dir, o / 8);
        let mut k = o % 8;
        while k < 8 && o < end {
            v.push((w >> (8 * k)) as u8);
            k += 1;
            o += 1;
        }
    }
    v
}

fn checksum(data: &[u8]) -> u64 {
    // FNV-1a, truncated to 60 bits
    let mut h: u64 = 0xcbf2_9ce4_8422_2325;
    for b in data {
        h ^= *b as u64;
        h = h.wrapping_mul(0x0000_0100_0000_01B3);
    }
    h & ((1 << 60) - 1)
}

fn now_us() -> u64 {
    let t = time::now();
    (unsafe { t.as_duration() }).as_micros() as u64
}

fn addr_id(a: &s2n_quic_core::inet::SocketAddress) -> u64 {
    (a.port() as u64).wrapping_sub(49152)
}

// ------------------------------------------------------------------------------------------
// shared observation state
// ------------------------------------------------------------------------------------------

const RECORD_CAP: usize = 4000;
/// max_handshake_duration of both endpoints (the s2n-quic default, set explicitly)
const HANDSHAKE_MS: u64 = 10_000;
const PROC_CAP: usize = 16000;
const XLOG_CAP: usize = 8000;

// frame record kinds
const K_STREAM: i128 = 1;
const K_RESET: i128 = 2;
const K_MAX_STREAM_DATA: i128 = 3;
const K_MAX_DATA: i128 = 4;
const K_MAX_STREAMS: i128 = 5; // sid field: 0 bidirectional, 1 unidirectional
const K_STREAM_DATA_BLOCKED: i128 = 7;
const K_CONN_CLOSE: i128 = 8;
const K_OTHER_AFTER_CLOSE: i128 = 9;
const K_TP_MAX_DATA: i128 = 10;
const K_TP_SD_BIDI_LOCAL: i128 = 11;
const K_TP_SD_BIDI_REMOTE: i128 = 12;
const K_TP_SD_UNI: i128 = 13;
const K_TP_STREAMS_BIDI: i128 = 14;
const K_TP_STREAMS_UNI: i128 = 15;
const K_STOP_SENDING: i128 = 16;

#[derive(Default, Clone)]
struct Flow {
    sid: u64,
    dir: u64, // 0 client->server, 1 server->client
    expected: u64,
    written: u64,
    fin_written: u64,
    read: u64,
    first_wrong: i128,
    clean_eos: u64,
    err_w: u64,
    err_r: u64,
}

#[derive(Default, Clone)]
struct Ep {
    conn_started: u64,
    closed: u64,
    closed_class: u64,
    closed_us: u64,
    last_rx_us: u64,
    idle_base_us: u64, // last processed packet, or the first ack-eliciting send after it
    sent_since_rx: bool,
    max_pto_us: u64,
    tasks_started: u64,
    tasks_done: u64,
    last_task_done_us: u64,
    close_sent: bool,
    // per (stream id): bytes first sent at each offset (0xFFFF = never sent)
    first_sent: HashMap<u64, Vec<u16>>,
    // C06: processed packets (space, pn, payload checksum) and emitted packets
    processed: Vec<(u64, u64, u64)>,
    emitted: HashSet<(u64, u64, u64)>,
    handshake_rx_us: i128, // first Handshake packet received (server: address validated)
    closed_code: i128,     // transport error code of the close, -1 otherwise
    closed_local: u64,     // the close was initiated by this endpoint
    tp_rx: u64,            // the peer's transport parameters were received (idle timeout negotiated)
    conn_start_us: u64,
}

#[derive(Default)]
struct Shared {
    seed: u64,
    flows: Vec<Flow>,
    ep: [Ep; 2],
    last_progress_us: u64,
    records: Vec<[i128; 11]>,
    capped: bool,
    connect_ok: u64,
    watchdog_hit: u64,
    opened: Vec<u64>, // stream ids in the order the client's open calls returned them
    // wire log of e2e_amp: [t_us, kind, src, dst, len, first byte, class]
    wire: Vec<[i128; 7]>,
    wire_capped: bool,
    wire_on: bool,
    // e2e_violate: what the client's tx interceptor breaks, and when it did
    viol: Option<Viol>,
    // datagrams that carry a MAX_DATA frame, just handed to the socket: (socket id, length)
    md_marks: Vec<(u64, usize)>,
    // generic event log of e2e_pn (mode 1), e2e_cid (mode 2), e2e_cc (mode 3): rows of 8 ints
    xmode: u8,
    xlog: Vec<[i128; 8]>,
    xcapped: bool,
    // e2e_cid: datagrams delivered to each endpoint and not yet known to be processed: (len, dcid hash)
    delivered: [std::collections::VecDeque<(usize, u64)>; 2],
    cid_len: usize,
    ids: [u64; 2], // socket ids (client, server) for the delivery bookkeeping
    // e2e_cc: ack-eliciting flag of the packets built by the tx interceptor, keyed (ep, space, pn)
    built: HashMap<(usize, u64, u64), bool>,
}

#[derive(Clone, Default)]
struct Viol {
    kind: u64,
    after_n: u64,     // rewrite the n-th eligible packet
    seen: u64,
    stream_window: u64,
    conn_window: u64,
    max_streams: u64,
    done_us: i128,    // -1 until the rewrite happened
    sent0: u64,       // highest end offset of genuine data sent on stream 0 so far
    opened2: bool,    // the client's first unidirectional stream (id 2) carried data already
}

type Sh = Arc<Mutex<Shared>>;

impl Shared {
    fn flow(&mut self, sid: u64, dir: u64) -> &mut Flow {
        if let Some(i) = self.flows.iter().position(|f| f.sid == sid && f.dir == dir) {
            return &mut self.flows[i];
        }
        self.flows.push(Flow { sid, dir, first_wrong: -1, ..Default::default() });
        self.flows.last_mut().unwrap()
    }
    fn record(&mut self, r: [i128; 11]) {
        if self.records.len() < RECORD_CAP {
            self.records.push(r);
        } else {
            self.capped = true;
        }
    }
    fn xrow(&mut self, r: [i128; 8]) {
        if self.xlog.len() < XLOG_CAP {
            self.xlog.push(r);
        } else {
            self.xcapped = true;
        }
    }
    fn wire(&mut self, r: [i128; 7]) {
        if !self.wire_on {
            return;
        }
        if self.wire.len() < 3000 {
            self.wire.push(r);
        } else {
            self.wire_capped = true;
        }
    }
}

fn err_class(e: &s2n_quic::connection::Error) -> u64 {
    use s2n_quic::connection::Error as E;
    match e {
        E::Closed { .. } => 1,
        E::Transport { .. } => 2,
        E::Application { .. } => 3,
        E::StatelessReset { .. } => 4,
        E::IdleTimerExpired { .. } => 5,
        E::NoValidPath { .. } => 6,
        E::StreamIdExhausted { .. } => 7,
        E::MaxHandshakeDurationExceeded { .. } => 8,
        E::ImmediateClose { .. } => 9,
        E::EndpointClosing { .. } => 10,
        E::InvalidConfiguration { .. } => 11,
        E::Unspecified { .. } => 12,
        _ => 13,
    }
}

// ------------------------------------------------------------------------------------------
// event subscriber
// ------------------------------------------------------------------------------------------

struct Sub {
    ep: usize,
    sh: Sh,
    // the event's TransportParameters carry no initial_max_data field: the peer's configured
    // connection window (both endpoints of a run are configured by this harness) stands in for it
    peer_conn_window: u64,
}

impl event::Subscriber for Sub {
    // true for the first connection of the endpoint: the one the run is about.  Further
    // connections can appear at the server when the attacker replays a client Initial after the
    // initial connection id mapping expired (a replayed Initial is a new connection attempt; it
    // times out on its own and is not the connection under observation).
    type ConnectionContext = bool;

    fn create_connection_context(&mut self, _meta: &events::ConnectionMeta, _info: &events::ConnectionInfo) -> Self::ConnectionContext {
        let mut s = self.sh.lock().unwrap();
        let first = s.ep[self.ep].conn_started == 0;
        if first {
            s.ep[self.ep].conn_start_us = now_us();
        }
        s.ep[self.ep].conn_started += 1;
        first
    }

    fn on_connection_closed(&mut self, first: &mut bool, _meta: &events::ConnectionMeta, event: &events::ConnectionClosed) {
        if !*first {
            return;
        }
        let mut s = self.sh.lock().unwrap();
        let e = &mut s.ep[self.ep];
        if e.closed == 0 {
            e.closed = 1;
            e.closed_class = err_class(&event.error);
            e.closed_us = now_us();
            if let s2n_quic::connection::Error::Transport { code, initiator, .. } = &event.error {
                e.closed_code = code.as_u64() as i128;
                e.closed_local = initiator.is_local() as u64;
            }
        }
        let t = now_us() as i128;
        match s.xmode {
            1 => s.xrow([4, self.ep as i128, 0, 0, 0, t, 0, 0]),
            3 => s.xrow([7, self.ep as i128, 0, 0, 0, 0, 0, t]),
            _ => {}
        }
    }

    fn on_recovery_metrics(&mut self, first: &mut bool, _meta: &events::ConnectionMeta, event: &events::RecoveryMetrics) {
        if !*first {
            return;
        }
        // PTO = smoothed_rtt + max(4*rttvar, 1ms) + max_ack_delay  (RFC 9002 6.2.1), without backoff
        let pto = event.smoothed_rtt.as_micros() as u64
            + (4 * event.rtt_variance.as_micros() as u64).max(1000)
            + event.max_ack_delay.as_micros() as u64;
        let mut s = self.sh.lock().unwrap();
        if s.xmode == 1 {
            s.xrow([5, self.ep as i128, 0, event.congestion_window as i128, event.smoothed_rtt.as_micros() as i128, now_us() as i128, 0, 0]);
        }
        if s.xmode == 3 {
            s.xrow([
                3,
                self.ep as i128,
                event.pto_count as i128,
                event.congestion_window as i128,
                event.bytes_in_flight as i128,
                event.smoothed_rtt.as_micros() as i128,
                event.latest_rtt.as_micros() as i128,
                now_us() as i128,
            ]);
        }
        let e = &mut s.ep[self.ep];
        e.max_pto_us = e.max_pto_us.max(pto);
    }

    fn on_transport_parameters_received(&mut self, first: &mut bool, _meta: &events::ConnectionMeta, event: &events::TransportParametersReceived) {
        if !*first {
            return;
        }
        let tp = &event.transport_parameters;
        let mut s = self.sh.lock().unwrap();
        s.ep[self.ep].tp_rx = 1;
        if s.xmode == 2 {
            // the active_connection_id_limit this endpoint received from its peer
            s.xrow([6, self.ep as i128, tp.active_connection_id_limit as i128, 0, 0, 0, 0, now_us() as i128]);
        }
        let ep = self.ep as i128;
        for (k, v) in [
            (K_TP_MAX_DATA, self.peer_conn_window),
            (K_TP_SD_BIDI_LOCAL, tp.initial_max_stream_data_bidi_local),
            (K_TP_SD_BIDI_REMOTE, tp.initial_max_stream_data_bidi_remote),
            (K_TP_SD_UNI, tp.initial_max_stream_data_uni),
            (K_TP_STREAMS_BIDI, tp.initial_max_streams_bidi),
            (K_TP_STREAMS_UNI, tp.initial_max_streams_uni),
        ] {
            s.record([ep, 1, k, 0, 0, 0, 0, 0, v as i128, -1, -1]);
        }
    }

    fn on_path_challenge_updated(&mut self, first: &mut bool, _meta: &events::ConnectionMeta, event: &events::PathChallengeUpdated) {
        if !*first || self.ep != 1 {
            return;
        }
        if let events::PathChallengeStatus::Validated { .. } = event.path_challenge_status {
            // marker in the wire log: the server validated the path to this client address
            let id = (event.path.remote_addr.port() as i128) - 49152;
            let mut s = self.sh.lock().unwrap();
            let t = now_us() as i128;
            s.wire([t, 3, id, id, 0, 0, 0]);
        }
    }

    fn on_key_space_discarded(&mut self, first: &mut bool, _meta: &events::ConnectionMeta, event: &events::KeySpaceDiscarded) {
        if !*first {
            return;
        }
        let space: i128 = match event.space {
            events::KeySpace::Initial { .. } => 0,
            events::KeySpace::Handshake { .. } => 1,
            events::KeySpace::OneRtt { .. } => 2,
            _ => return,
        };
        let mut s = self.sh.lock().unwrap();
        let t = now_us() as i128;
        match s.xmode {
            1 => s.xrow([3, self.ep as i128, space, 0, 0, t, 0, 0]),
            3 => s.xrow([4, self.ep as i128, space, 0, 0, 0, 0, t]),
            _ => {}
        }
    }

    fn on_packet_sent(&mut self, first: &mut bool, _meta: &events::ConnectionMeta, event: &events::PacketSent) {
        if !*first {
            return;
        }
        let mut s = self.sh.lock().unwrap();
        if s.xmode != 3 {
            return;
        }
        if let Some((space, pn)) = header_space_pn(&event.packet_header) {
            let mode: i128 = match event.transmission_mode {
                events::TransmissionMode::Normal { .. } => 0,
                events::TransmissionMode::LossRecoveryProbing { .. } => 1,
                events::TransmissionMode::MtuProbing { .. } => 2,
                _ => 3,
            };
            let el = s.built.remove(&(self.ep, space, pn)).map(|b| b as i128).unwrap_or(-1);
            s.xrow([0, self.ep as i128, space as i128, pn as i128, event.packet_len as i128, el, mode, now_us() as i128]);
        }
    }

    fn on_ack_range_received(&mut self, first: &mut bool, _meta: &events::ConnectionMeta, event: &events::AckRangeReceived) {
        if !*first {
            return;
        }
        let mut s = self.sh.lock().unwrap();
        if s.xmode != 3 {
            return;
        }
        if let Some((space, _)) = header_space_pn(&event.packet_header) {
            s.xrow([1, self.ep as i128, space as i128, *event.ack_range.start() as i128, *event.ack_range.end() as i128, 0, 0, now_us() as i128]);
        }
    }

    fn on_packet_lost(&mut self, first: &mut bool, _meta: &events::ConnectionMeta, event: &events::PacketLost) {
        if !*first {
            return;
        }
        let mut s = self.sh.lock().unwrap();
        if s.xmode != 3 {
            return;
        }
        if let Some((space, pn)) = header_space_pn(&event.packet_header) {
            s.xrow([2, self.ep as i128, space as i128, pn as i128, event.bytes_lost as i128, event.is_mtu_probe as i128, 0, now_us() as i128]);
        }
    }

    fn on_congestion(&mut self, first: &mut bool, _meta: &events::ConnectionMeta, _event: &events::Congestion) {
        if !*first {
            return;
        }
        let mut s = self.sh.lock().unwrap();
        if s.xmode == 3 {
            s.xrow([5, self.ep as i128, 0, 0, 0, 0, 0, now_us() as i128]);
        }
    }

    fn on_mtu_updated(&mut self, first: &mut bool, _meta: &events::ConnectionMeta, event: &events::MtuUpdated) {
        if !*first {
            return;
        }
        let mut s = self.sh.lock().unwrap();
        if s.xmode == 3 {
            s.xrow([6, self.ep as i128, 0, event.mtu as i128, 0, 0, 0, now_us() as i128]);
        }
    }

    fn on_endpoint_datagram_dropped(&mut self, _meta: &events::EndpointMeta, event: &events::EndpointDatagramDropped) {
        // e2e_cid: which of the delivered datagrams was it?  The endpoint works through its receive
        // queue in order, so it is the oldest delivered datagram of that length not yet accounted for.
        let mut s = self.sh.lock().unwrap();
        if s.xmode != 2 {
            return;
        }
        let unknown = matches!(event.reason, events::DatagramDropReason::UnknownDestinationConnectionId { .. });
        let ep = self.ep;
        let mut hash: i128 = -1;
        while let Some((len, h)) = s.delivered[ep].pop_front() {
            if len == event.len as usize {
                hash = h as i128;
                break;
            }
        }
        if unknown {
            s.xrow([4, ep as i128, 0, 0, hash, 0, 0, now_us() as i128]);
        }
    }

    fn on_packet_received(&mut self, first: &mut bool, _meta: &events::ConnectionMeta, event: &events::PacketReceived) {
        if !*first {
            return;
        }
        if let events::PacketHeader::Handshake { .. } = event.packet_header {
            let mut s = self.sh.lock().unwrap();
            if s.ep[self.ep].handshake_rx_us < 0 {
                let t = now_us() as i128;
                s.ep[self.ep].handshake_rx_us = t;
                if self.ep == 1 {
                    // marker in the wire log: the server processed the first client Handshake packet
                    s.wire([t, 2, 0, 0, 0, 0, 0]);
                }
            }
        }
    }
}

// ------------------------------------------------------------------------------------------
// packet interceptor: cleartext frames of sent / processed packets
// ------------------------------------------------------------------------------------------

struct Icpt {
    ep: usize,
    sh: Sh,
    full: bool, // record frames (stream mode); false: only packet level bookkeeping
    // internal id of the first connection seen: the connection the run is about.  A replayed
    // client Initial can make the server open a further connection (a new connection attempt as
    // far as QUIC is concerned); its packets are not part of the observed connection.
    primary: Option<u64>,
    // e2e_cid: rows of RETIRE_CONNECTION_ID frames waiting for the destination id of their datagram
    pending_retire: Vec<usize>,
    own_id_logged: bool,
    saw_max_data: bool,
}

fn datagram_cids(d: &[u8], cid_len: usize) -> (Option<u64>, Option<u64>) {
    // (destination id hash, source id hash) of the first packet of a datagram
    if d.is_empty() {
        return (None, None);
    }
    if d[0] & 0x80 == 0 {
        if d.len() > cid_len {
            return (Some(checksum(&d[1..1 + cid_len])), None);
        }
        return (None, None);
    }
    if d.len() < 7 {
        return (None, None);
    }
    let dl = d[5] as usize;
    if d.len() < 7 + dl {
        return (None, None);
    }
    let dcid = checksum(&d[6..6 + dl]);
    let sl = d[6 + dl] as usize;
    if d.len() < 7 + dl + sl {
        return (Some(dcid), None);
    }
    (Some(dcid), Some(checksum(&d[7 + dl..7 + dl + sl])))
}

impl Icpt {
    fn is_primary(&mut self, subject: &Subject) -> bool {
        match subject {
            Subject::Connection { id, .. } => {
                if self.primary.is_none() {
                    self.primary = Some(*id);
                }
                self.primary == Some(*id)
            }
            _ => true,
        }
    }
}

fn header_space_pn(h: &events::PacketHeader) -> Option<(u64, u64)> {
    match h {
        events::PacketHeader::Initial { number, .. } => Some((0, *number)),
        events::PacketHeader::Handshake { number, .. } => Some((1, *number)),
        events::PacketHeader::OneRtt { number, .. } => Some((2, *number)),
        _ => None,
    }
}

fn space_id(s: PacketNumberSpace) -> u64 {
    match s {
        PacketNumberSpace::Initial => 0,
        PacketNumberSpace::Handshake => 1,
        PacketNumberSpace::ApplicationData => 2,
    }
}

impl Icpt {
    fn frames(&mut self, tx: bool, space: u64, payload: &[u8]) -> bool {
        // returns whether the packet is ack eliciting
        let mut copy = payload.to_vec();
        let mut buf = DecoderBufferMut::new(&mut copy);
        let mut eliciting = false;
        let mut s = self.sh.lock().unwrap();
        let seed = s.seed;
        let ep = self.ep;
        let dir = if tx { 0 } else { 1 };
        while !buf.is_empty() {
            let (frame, rest) = match buf.decode::<FrameMut>() {
                Ok(x) => x,
                Err(_) => break,
            };
            buf = rest;
            if frame.ack_elicitation().is_ack_eliciting() {
                eliciting = true;
            }
            if tx && matches!(frame, FrameMut::MaxData(_)) {
                self.saw_max_data = true;
            }
            match s.xmode {
                1 => {
                    if tx {
                        match &frame {
                            FrameMut::Ack(a) => {
                                let t = now_us() as i128;
                                for r in a.ack_ranges() {
                                    s.xrow([2, ep as i128, space as i128, r.start().as_u64() as i128, r.end().as_u64() as i128, t, 0, 0]);
                                }
                            }
                            FrameMut::ConnectionClose(_) => {
                                if !s.ep[ep].close_sent {
                                    s.ep[ep].close_sent = true;
                                    s.xrow([4, ep as i128, 0, 0, 0, now_us() as i128, 0, 0]);
                                }
                            }
                            _ => {}
                        }
                    }
                }
                2 => {
                    let t = now_us() as i128;
                    match &frame {
                        FrameMut::NewConnectionId(f) => {
                            let k = if tx { 0 } else { 2 };
                            s.xrow([k, ep as i128, f.sequence_number.as_u64() as i128, f.retire_prior_to.as_u64() as i128, checksum(f.connection_id) as i128, checksum(&f.stateless_reset_token[..]) as i128, -1, t]);
                        }
                        FrameMut::RetireConnectionId(f) => {
                            let k = if tx { 1 } else { 3 };
                            if tx {
                                self.pending_retire.push(s.xlog.len());
                            }
                            s.xrow([k, ep as i128, f.sequence_number.as_u64() as i128, 0, 0, 0, -1, t]);
                        }
                        _ => {}
                    }
                }
                _ => {}
            }
            if !self.full {
                continue;
            }
            let e = ep as i128;
            let closed_before = s.ep[ep].close_sent;
            match &frame {
                FrameMut::Padding(_) => {}
                FrameMut::Stream(f) if tx => {
                    let sid = f.stream_id.as_u64();
                    let off = f.offset.as_u64();
                    let data: &[u8] = f.data.as_less_safe_slice();
                    // the direction of the data this endpoint sends
                    let ddir = ep as u64;
                    let mut bad_w: i128 = -1;
                    let mut bad_f: i128 = -1;
                    {
                        let fs = s.ep[ep].first_sent.entry(sid).or_default();
                        let end = off as usize + data.len();
                        if fs.len() < end {
                            fs.resize(end, 0xFFFF);
                        }
                        for (i, b) in data.iter().enumerate() {
                            let o = off + i as u64;
                            if bad_w < 0 && *b != data_byte(seed, sid, ddir, o) {
                                bad_w = o as i128;
                            }
                            let slot = &mut fs[o as usize];
                            if *slot == 0xFFFF {
                                *slot = *b as u16;
                            } else if bad_f < 0 && *slot != *b as u16 {
                                bad_f = o as i128;
                            }
                        }
                    }
                    s.record([e, dir, K_STREAM, sid as i128, off as i128, data.len() as i128, f.is_fin as i128, checksum(data) as i128, 0, bad_w, bad_f]);
                }
                FrameMut::Stream(_) => {}
                FrameMut::ResetStream(f) => {
                    s.record([e, dir, K_RESET, f.stream_id.as_u64() as i128, f.final_size.as_u64() as i128, 0, 0, 0, f.application_error_code.as_u64() as i128, -1, -1]);
                }
                FrameMut::StopSending(f) => {
                    s.record([e, dir, K_STOP_SENDING, f.stream_id.as_u64() as i128, 0, 0, 0, 0, f.application_error_code.as_u64() as i128, -1, -1]);
                }
                FrameMut::MaxStreamData(f) => {
                    s.record([e, dir, K_MAX_STREAM_DATA, f.stream_id.as_u64() as i128, 0, 0, 0, 0, f.maximum_stream_data.as_u64() as i128, -1, -1]);
                }
                FrameMut::MaxData(f) => {
                    s.record([e, dir, K_MAX_DATA, 0, 0, 0, 0, 0, f.maximum_data.as_u64() as i128, -1, -1]);
                }
                FrameMut::MaxStreams(f) => {
                    let ty = if f.stream_type.is_bidirectional() { 0 } else { 1 };
                    s.record([e, dir, K_MAX_STREAMS, ty, 0, 0, 0, 0, f.maximum_streams.as_u64() as i128, -1, -1]);
                }
                FrameMut::StreamDataBlocked(f) if tx => {
                    s.record([e, dir, K_STREAM_DATA_BLOCKED, f.stream_id.as_u64() as i128, 0, 0, 0, 0, f.stream_data_limit.as_u64() as i128, -1, -1]);
                }
                FrameMut::ConnectionClose(f) if tx => {
                    s.ep[ep].close_sent = true;
                    s.record([e, dir, K_CONN_CLOSE, 0, 0, 0, 0, 0, f.error_code.as_u64() as i128, -1, -1]);
                }
                _ => {
                    if tx && closed_before {
                        s.record([e, dir, K_OTHER_AFTER_CLOSE, 0, 0, 0, 0, 0, 0, -1, -1]);
                    }
                }
            }
        }
        eliciting
    }
}

// kinds of e2e_violate and the error RFC 9000 prescribes
// 1 STREAM beyond MAX_STREAM_DATA (FLOW_CONTROL_ERROR 3)   2 STREAM beyond MAX_DATA (3)
// 3 STREAM on a stream beyond MAX_STREAMS (STREAM_LIMIT_ERROR 4)
// 4 STREAM with FIN below data already sent: changed final size (FINAL_SIZE_ERROR 6)
// 5 MAX_STREAM_DATA for a server-initiated stream that was never opened (STREAM_STATE_ERROR 5)
// 6 RESET_STREAM with a final size below data already sent (6)
// 7 STOP_SENDING for the client's own unidirectional stream, receive-only at the victim (5)
// 8 STREAM frame in a Handshake packet (PROTOCOL_VIOLATION 10)
fn violate(sh: &Sh, space: u64, payload: &mut [u8]) {
    use s2n_codec::{Encoder, EncoderBuffer};
    use s2n_quic_core::{frame, varint::VarInt};
    let mut s = sh.lock().unwrap();
    let seed = s.seed;
    let Some(v) = s.viol.as_mut() else { return };
    if v.done_us >= 0 {
        return;
    }
    // bookkeeping from the genuine frames
    {
        let mut copy = payload.to_vec();
        let mut buf = DecoderBufferMut::new(&mut copy);
        while !buf.is_empty() {
            let Ok((f, rest)) = buf.decode::<FrameMut>() else { break };
            buf = rest;
            if let FrameMut::Stream(st) = &f {
                let end = st.offset.as_u64() + st.data.len() as u64;
                if st.stream_id.as_u64() == 0 {
                    v.sent0 = v.sent0.max(end);
                }
                if st.stream_id.as_u64() == 2 && end > 0 {
                    v.opened2 = true;
                }
            }
        }
    }
    let eligible = match v.kind {
        8 => space == 1 && payload.len() >= 16,
        4 | 6 => space == 2 && payload.len() >= 40 && v.sent0 >= 3000,
        7 => space == 2 && payload.len() >= 40 && v.opened2,
        _ => space == 2 && payload.len() >= 40,
    };
    if !eligible {
        return;
    }
    v.seen += 1;
    if v.seen < v.after_n && v.kind != 8 {
        return;
    }
    // offending stream data: never equal to what the application wrote
    let bad = |sid: u64, off: u64, n: usize| -> Vec<u8> { (0..n).map(|i| !data_byte(seed, sid, 0, off + i as u64)).collect() };
    let vi = |x: u64| VarInt::new(x).unwrap();
    let total = payload.len();
    let mut enc = EncoderBuffer::new(payload);
    match v.kind {
        1 => {
            // beyond any limit the victim can have granted: it cannot have consumed more than was sent
            let off = v.sent0 + v.stream_window + 5000;
            let d = bad(0, off, 8);
            enc.encode(&frame::Stream { stream_id: vi(0), offset: vi(off), is_last_frame: false, is_fin: false, data: &d[..] });
        }
        2 => {
            // raises the connection-wide sum by more than the whole connection window
            let off = v.sent0 + v.conn_window + 1000;
            let d = bad(0, off, 8);
            enc.encode(&frame::Stream { stream_id: vi(0), offset: vi(off), is_last_frame: false, is_fin: false, data: &d[..] });
        }
        3 => {
            let sid = 4 * (v.max_streams + 7);
            let d = bad(sid, 0, 8);
            enc.encode(&frame::Stream { stream_id: vi(sid), offset: vi(0), is_last_frame: false, is_fin: false, data: &d[..] });
        }
        4 => {
            let d = bad(0, 10, 4);
            enc.encode(&frame::Stream { stream_id: vi(0), offset: vi(10), is_last_frame: false, is_fin: true, data: &d[..] });
        }
        5 => {
            enc.encode(&frame::MaxStreamData { stream_id: vi(1), maximum_stream_data: vi(1 << 20) });
        }
        6 => {
            enc.encode(&frame::ResetStream { stream_id: vi(0), application_error_code: vi(9), final_size: vi(5) });
        }
        7 => {
            enc.encode(&frame::StopSending { stream_id: vi(2), application_error_code: vi(9) });
        }
        _ => {
            let d = bad(0, 0, 4);
            enc.encode(&frame::Stream { stream_id: vi(0), offset: vi(0), is_last_frame: false, is_fin: false, data: &d[..] });
        }
    }
    // the rest of the packet becomes PADDING
    let used = enc.len();
    drop(enc);
    for b in payload[used..total].iter_mut() {
        *b = 0;
    }
    v.done_us = now_us() as i128;
}

impl Interceptor for Icpt {
    fn intercept_rx_payload<'a>(&mut self, subject: &Subject, packet: &IPacket, payload: DecoderBufferMut<'a>) -> DecoderBufferMut<'a> {
        if !self.is_primary(subject) {
            return payload;
        }
        let bytes = payload.into_less_safe_slice();
        let t = now_us();
        {
            let mut s = self.sh.lock().unwrap();
            let e = &mut s.ep[self.ep];
            e.last_rx_us = t;
            e.idle_base_us = t;
            e.sent_since_rx = false;
            if e.processed.len() < PROC_CAP {
                e.processed.push((space_id(packet.number.space()), packet.number.as_u64(), checksum(bytes)));
            }
        }
        let space = space_id(packet.number.space());
        let eliciting = self.frames(false, space, bytes);
        {
            let mut s = self.sh.lock().unwrap();
            if s.xmode == 1 {
                s.xrow([1, self.ep as i128, space as i128, packet.number.as_u64() as i128, eliciting as i128, t as i128, 0, 0]);
            }
        }
        DecoderBufferMut::new(bytes)
    }

    fn intercept_tx_datagram(&mut self, subject: &Subject, _datagram: &s2n_quic_core::packet::interceptor::Datagram, payload: &mut s2n_codec::EncoderBuffer) {
        if !self.is_primary(subject) {
            return;
        }
        let mut s = self.sh.lock().unwrap();
        if self.saw_max_data {
            self.saw_max_data = false;
            let id = s.ids[self.ep];
            if s.md_marks.len() < 64 {
                s.md_marks.push((id, payload.as_mut_slice().len()));
            }
        }
        if s.xmode != 2 {
            return;
        }
        let cid_len = s.cid_len;
        let (dcid, scid) = datagram_cids(payload.as_mut_slice(), cid_len);
        if let (false, Some(h)) = (self.own_id_logged, scid) {
            // the connection id this endpoint uses during the handshake: sequence number 0
            self.own_id_logged = true;
            s.xrow([5, self.ep as i128, 0, 0, h as i128, 0, 0, now_us() as i128]);
        }
        for i in self.pending_retire.drain(..) {
            if let (Some(row), Some(h)) = (s.xlog.get_mut(i), dcid) {
                row[6] = h as i128;
            }
        }
    }

    fn intercept_tx_payload(&mut self, subject: &Subject, packet: &IPacket, payload: &mut s2n_codec::encoder::scatter::Buffer) {
        if !self.is_primary(subject) {
            return;
        }
        if self.ep == 0 {
            violate(&self.sh, space_id(packet.number.space()), payload.flatten().as_mut_slice());
        }
        let bytes = payload.flatten().as_mut_slice().to_vec();
        {
            let mut s = self.sh.lock().unwrap();
            s.ep[self.ep].emitted.insert((space_id(packet.number.space()), packet.number.as_u64(), checksum(&bytes)));
        }
        let space = space_id(packet.number.space());
        let eliciting = self.frames(true, space, &bytes);
        {
            let mut s = self.sh.lock().unwrap();
            match s.xmode {
                1 => s.xrow([0, self.ep as i128, space as i128, packet.number.as_u64() as i128, eliciting as i128, now_us() as i128, 0, 0]),
                3 => {
                    s.built.insert((self.ep, space, packet.number.as_u64()), eliciting);
                }
                _ => {}
            }
        }
        if eliciting {
            let mut s = self.sh.lock().unwrap();
            let e = &mut s.ep[self.ep];
            if !e.sent_since_rx {
                // RFC 9000 10.1: the idle timer also restarts when sending an ack-eliciting packet
                // if no other ack-eliciting packet was sent since last receiving and processing one
                e.sent_since_rx = true;
                e.idle_base_us = now_us();
            }
        }
    }
}

// ------------------------------------------------------------------------------------------
// the network
// ------------------------------------------------------------------------------------------

#[derive(Clone, Default)]
struct NetCfg {
    seed: u64,
    drop_pm: u64,
    dup_pm: u64,
    corrupt_pm: u64,
    jitter_ms: u64,
    delay_ms: u64,
    max_udp: usize,
    fault_until_us: u64, // random faults (drop/dup/corrupt/jitter) only before this time
    bh_start_us: u64,    // 0 = no blackhole
    bh_end_us: u64,      // u64::MAX = forever
    // attacker (e2e_inject)
    inject_pm: u64,
    inject_from_us: u64,
    inject_until_us: u64,
    inject_kinds: u64, // bit mask over the kinds below
    // faults apply only to these two hosts' traffic when set (raw senders get a clean path)
    fault_hosts: Option<(u64, u64)>,
    // e2e_amp rebinding scenario: only the first datagram from this socket id is let through
    only_first_from: Option<u64>,
    // while faults are active, datagrams carrying a MAX_DATA frame are dropped with this permille
    md_drop_pm: u64,
}

const INJ_RANDOM: usize = 0;
const INJ_FLIP: usize = 1;
const INJ_TRUNC: usize = 2;
const INJ_SPLICE: usize = 3;
const INJ_REPLAY: usize = 4;
const INJ_HDR_RANDOM: usize = 5; // genuine header bytes, random body
const INJ_KINDS: usize = 6;

struct Net {
    first_from_seen: bool,
    cfg: NetCfg,
    rng: Rng,
    sh: Sh,
    history: Vec<Packet>, // genuine datagrams seen (bounded), material for the attacker
    old: Vec<Packet>,     // every genuine datagram in order (bounded): material for replays of OLD datagrams
    injected: Arc<Mutex<[u64; INJ_KINDS]>>,
}

fn classify(d: &[u8]) -> i128 {
    // 0 short header, 1 contains an Initial packet, 2 long header without Initial, 3 version negotiation, 4 too short / undecodable
    if d.is_empty() {
        return 4;
    }
    if d[0] & 0x80 == 0 {
        return 0;
    }
    let mut pos = 0usize;
    let mut seen_initial = false;
    let mut first = true;
    while pos < d.len() {
        let p = &d[pos..];
        if p[0] & 0x80 == 0 {
            break; // a short header packet ends the datagram
        }
        if p.len() < 7 {
            return if first { 4 } else if seen_initial { 1 } else { 2 };
        }
        let version = u32::from_be_bytes([p[1], p[2], p[3], p[4]]);
        if version == 0 {
            return if first { 3 } else if seen_initial { 1 } else { 2 };
        }
        let ty = (p[0] >> 4) & 3;
        let mut i = 5;
        let dcil = p[i] as usize;
        i += 1 + dcil;
        if i >= p.len() {
            return if first { 4 } else if seen_initial { 1 } else { 2 };
        }
        let scil = p[i] as usize;
        i += 1 + scil;
        if ty == 0 {
            seen_initial = true;
            // token
            match varint(p, i) {
                Some((tl, n)) => i += n + tl as usize,
                None => return 1,
            }
        } else if ty == 3 {
            // retry: rest of the datagram
            return if seen_initial { 1 } else { 2 };
        }
        match varint(p, i) {
            Some((l, n)) => {
                pos += i + n + l as usize;
            }
            None => break,
        }
        first = false;
    }
    if seen_initial {
        1
    } else {
        2
    }
}

fn varint(p: &[u8], i: usize) -> Option<(u64, usize)> {
    let b = *p.get(i)?;
    let n = 1usize << (b >> 6);
    if i + n > p.len() {
        return None;
    }
    let mut v = (b & 0x3f) as u64;
    for k in 1..n {
        v = (v << 8) | p[i + k] as u64;
    }
    Some((v, n))
}

impl Net {
    fn new(cfg: NetCfg, sh: Sh) -> Self {
        let rng = Rng::new(cfg.seed, 77);
        Net { first_from_seen: false, cfg, rng, sh, history: vec![], old: vec![], injected: Default::default() }
    }

    fn deliver(&self, buffers: &Buffers, now_ts: s2n_quic_core::time::Timestamp, delay_us: u64, mut pkt: Packet) {
        pkt.switch();
        let buffers = buffers.clone();
        let sh = self.sh.clone();
        let at = now_ts + Duration::from_micros(delay_us);
        spawn(async move {
            if delay_us > 0 {
                time::delay_until(at).await;
            }
            {
                let mut s = sh.lock().unwrap();
                if s.wire_on {
                    let src = addr_id(&pkt.path.remote_address.0) as i128;
                    let dst = addr_id(&pkt.path.local_address.0) as i128;
                    let fb = pkt.payload.first().copied().unwrap_or(0) as i128;
                    let r = [now_us() as i128, 1, src, dst, pkt.payload.len() as i128, fb, classify(&pkt.payload)];
                    s.wire(r);
                }
                if s.xmode == 2 {
                    let dst = addr_id(&pkt.path.local_address.0);
                    let (dcid, _) = datagram_cids(&pkt.payload, s.cid_len);
                    for ep in 0..2 {
                        if s.ids[ep] == dst {
                            if s.delivered[ep].len() > 4000 {
                                s.delivered[ep].pop_front();
                            }
                            s.delivered[ep].push_back((pkt.payload.len(), dcid.unwrap_or(0)));
                        }
                    }
                }
            }
            buffers.rx(*pkt.path.local_address, |q| q.enqueue(pkt));
        });
    }

    fn garble(&mut self, kind: usize, base: &Packet) -> Option<Packet> {
        let mut p = base.clone();
        let n = p.payload.len();
        match kind {
            INJ_RANDOM => {
                let len = 1 + self.rng.below(1400) as usize;
                p.payload = (0..len).map(|_| self.rng.next() as u8).collect();
            }
            INJ_FLIP => {
                if n == 0 {
                    return None;
                }
                let flips = 1 + self.rng.below(3);
                for _ in 0..flips {
                    let i = self.rng.below(n as u64) as usize;
                    p.payload[i] ^= 1 << self.rng.below(8);
                }
            }
            INJ_TRUNC => {
                if n < 2 {
                    return None;
                }
                let keep = 1 + self.rng.below(n as u64 - 1) as usize;
                p.payload.truncate(keep);
            }
            INJ_SPLICE => {
                // head of this datagram, tail of another genuine one (towards the same destination)
                let same: Vec<usize> = (0..self.history.len()).filter(|i| self.history[*i].path.remote_address == base.path.remote_address).collect();
                if same.is_empty() || n < 2 {
                    return None;
                }
                let o = &self.history[same[self.rng.below(same.len() as u64) as usize]];
                if o.payload == base.payload {
                    return None;
                }
                let cut = 1 + self.rng.below(n as u64 - 1) as usize;
                let ocut = self.rng.below(o.payload.len() as u64) as usize;
                let mut v = p.payload[..cut].to_vec();
                v.extend_from_slice(&o.payload[ocut..]);
                if v == base.payload || v == o.payload {
                    return None;
                }
                p.payload = v;
            }
            INJ_REPLAY => {
                // half of the replays are OLD datagrams of the same direction: more than 128 packet
                // numbers (the duplicate window) or more than 1000 behind the newest one
                let olds: Vec<usize> = (0..self.old.len()).filter(|i| self.old[*i].path.remote_address == base.path.remote_address).collect();
                let back = if self.rng.below(2) == 0 { 150 + self.rng.below(300) } else { 1100 + self.rng.below(700) } as usize;
                if self.rng.below(2) == 0 && olds.len() > back {
                    p = self.old[olds[olds.len() - 1 - back]].clone();
                } else {
                    let same: Vec<usize> = (0..self.history.len()).filter(|i| self.history[*i].path.remote_address == base.path.remote_address).collect();
                    if same.is_empty() {
                        return None;
                    }
                    p = self.history[same[self.rng.below(same.len() as u64) as usize]].clone();
                }
            }
            INJ_HDR_RANDOM => {
                if n < 24 {
                    return None;
                }
                let keep = 1 + self.rng.below(20) as usize;
                for i in keep..n {
                    p.payload[i] = self.rng.next() as u8;
                }
            }
            _ => return None,
        }
        Some(p)
    }

    fn process(&mut self, buffers: &Buffers, now_ts: s2n_quic_core::time::Timestamp, now: u64, pkt: Packet) -> usize {
        let c = self.cfg.clone();
        let src = addr_id(&pkt.path.local_address.0);
        let dst = addr_id(&pkt.path.remote_address.0);
        {
            let mut s = self.sh.lock().unwrap();
            if s.wire_on {
                let fb = pkt.payload.first().copied().unwrap_or(0) as i128;
                let r = [now as i128, 0, src as i128, dst as i128, pkt.payload.len() as i128, fb, classify(&pkt.payload)];
                s.wire(r);
            }
        }
        if c.only_first_from == Some(src) {
            if self.first_from_seen {
                return 0;
            }
            self.first_from_seen = true;
        }
        let faulty_path = match c.fault_hosts {
            None => true,
            Some((a, b)) => (src == a && dst == b) || (src == b && dst == a),
        };
        let base_delay = c.delay_ms * 1000;
        if !faulty_path {
            self.deliver(buffers, now_ts, base_delay, pkt);
            return 1;
        }
        if c.bh_start_us > 0 && now >= c.bh_start_us && now < c.bh_end_us {
            return 0;
        }
        if pkt.payload.len() > c.max_udp {
            return 0;
        }
        let mut count = 0;
        // attacker
        if c.inject_pm > 0 && self.old.len() < 8000 {
            self.old.push(pkt.clone());
        }
        if c.inject_pm > 0 && now >= c.inject_from_us && now < c.inject_until_us {
            if self.history.len() < 64 {
                self.history.push(pkt.clone());
            } else {
                let i = self.rng.below(64) as usize;
                self.history[i] = pkt.clone();
            }
            if self.rng.permille(c.inject_pm) {
                let n = 1 + self.rng.below(3);
                for _ in 0..n {
                    let kinds: Vec<usize> = (0..INJ_KINDS).filter(|k| c.inject_kinds & (1 << k) != 0).collect();
                    if kinds.is_empty() {
                        break;
                    }
                    let kind = kinds[self.rng.below(kinds.len() as u64) as usize];
                    if let Some(p) = self.garble(kind, &pkt) {
                        self.injected.lock().unwrap()[kind] += 1;
                        let d = base_delay + self.rng.below(2 * base_delay + 1000);
                        self.deliver(buffers, now_ts, d, p);
                        count += 1;
                    }
                }
            }
        }
        let faults = now < c.fault_until_us;
        if c.md_drop_pm > 0 {
            let marked = {
                let mut s = self.sh.lock().unwrap();
                match s.md_marks.iter().position(|m| m.0 == src && m.1 == pkt.payload.len()) {
                    Some(i) => {
                        s.md_marks.remove(i);
                        true
                    }
                    None => false,
                }
            };
            if marked && faults && self.rng.permille(c.md_drop_pm) {
                return count;
            }
        }
        if faults && self.rng.permille(c.drop_pm) {
            return count;
        }
        let mut copies = 1;
        if faults {
            while copies < 3 && self.rng.permille(c.dup_pm) {
                copies += 1;
            }
        }
        for _ in 0..copies {
            let mut p = pkt.clone();
            if faults && !p.payload.is_empty() && self.rng.permille(c.corrupt_pm) {
                let n = p.payload.len() as u64;
                match self.rng.below(3) {
                    0 => {
                        let i = self.rng.below(n) as usize;
                        p.payload[i] ^= 1 << self.rng.below(8);
                    }
                    1 => {
                        let keep = self.rng.below(n) as usize;
                        p.payload.truncate(keep.max(1));
                    }
                    _ => {
                        let k = 1 + self.rng.below(8);
                        for _ in 0..k {
                            let i = self.rng.below(n) as usize;
                            p.payload[i] = self.rng.next() as u8;
                        }
                    }
                }
            }
            let mut d = base_delay;
            if faults && c.jitter_ms > 0 {
                d += self.rng.below(c.jitter_ms * 1000 + 1);
            }
            self.deliver(buffers, now_ts, d, p);
            count += 1;
        }
        count
    }
}

impl Network for Net {
    fn execute(&mut self, buffers: &Buffers) -> usize {
        let mut pkts: Vec<Packet> = Vec::new();
        buffers.drain_pending_transmissions(|p| {
            pkts.push(p);
            Ok(())
        });
        if pkts.is_empty() {
            return 0;
        }
        // the tx queues live in a HashMap with a randomly keyed hasher: restore a canonical order
        // (per-source FIFO is preserved by the stable sort)
        pkts.sort_by_key(|p| addr_id(&p.path.local_address.0));
        let now_ts = time::now();
        let now = now_us();
        let mut count = 0;
        for p in pkts {
            count += self.process(buffers, now_ts, now, p);
        }
        count
    }
}

// ------------------------------------------------------------------------------------------
// application logic shared by e2e_stream / e2e_inject
// ------------------------------------------------------------------------------------------

#[derive(Clone, Default)]
struct AppCfg {
    seed: u64,
    n_bidi: u64,
    n_uni: u64,
    bytes: u64,
    stream_window: u64,
    conn_window: u64,
    max_streams: u64,
    chunk: u64,
    read_size: u64,
    idle_ms: u64,
    watchdog_us: u64,
    close_at_end: bool,
    full_records: bool,
    finish_mode: u64, // 0: close().await (finish + flush in one request); 1: finish() then flush().await
    retry_first: u64,      // the server answers this many connection attempts with a Retry
    cid_lifetime_ms: u64,  // 0 = connection ids do not expire
    active_cid_limit: [u64; 2], // (client, server) active_connection_id_limit, 0 = default
    cc: u64,               // 0 cubic, 1 bbr
    max_ack_delay_ms: [u64; 2], // (client, server) advertised max_ack_delay, 0 = default (25 ms)
    pause_ms: u64,         // the writers sleep this long between chunks
    rebinds: u64,          // the client's socket moves to a new port this many times ...
    rebind_every_ms: u64,  // ... at this interval
    server_close_after_ms: u64, // the server application closes this long after accepting (0 = never)
    wmask: u64,            // allowed write modes (bit set), 0 = send(Bytes) only
    rmask: u64,            // allowed read modes (bit set), 0 = receive() / read() chosen by read_size
    send_buf: u64,         // max_send_buffer_size, 0 = default
    slow_wait_ms: u64,     // extra wait of the slow reader after the writer finished
}

// write modes: 0 send(Bytes); 1 send_vectored; 2 tokio AsyncWrite::poll_write_vectored (partial
// writes honoured); 3 futures AsyncWriteExt::write_all
// read modes: 0 receive(); 1 futures AsyncReadExt::read with odd sizes; 2 receive_vectored with
// 1..4 slots until !is_open; 3 tokio AsyncRead::poll_read; 4 slow reader: waits until the writer
// has finished and the data had time to arrive, then receive_vectored with 1..2 slots; 5 tokio
// read_exact: ONE ReadBuf of 3000..20000 bytes polled again and again until it is full (the data
// arrives in packet-sized pieces) or the stream ends
fn pick_mode(mask: u64, seed: u64, sid: u64, dir: u64, salt: u64, n: u64) -> Option<u64> {
    let allowed: Vec<u64> = (0..n).filter(|m| mask & (1 << m) != 0).collect();
    if allowed.is_empty() {
        None
    } else {
        Some(allowed[(mix(seed ^ mix(sid * 2 + dir + salt)) % allowed.len() as u64) as usize])
    }
}

/// endpoint limits: Retry for the first `retry` connection attempts
struct RetryFirst {
    retry: u64,
}

impl s2n_quic::provider::endpoint_limits::Limiter for RetryFirst {
    fn on_connection_attempt(&mut self, _info: &s2n_quic::provider::endpoint_limits::ConnectionAttempt) -> s2n_quic::provider::endpoint_limits::Outcome {
        if self.retry > 0 {
            self.retry -= 1;
            s2n_quic::provider::endpoint_limits::Outcome::retry()
        } else {
            s2n_quic::provider::endpoint_limits::Outcome::allow()
        }
    }
}

/// seeded connection ids of 16 bytes, optionally with one constant lifetime
struct CidFormat {
    rng: Rng,
    lifetime: Option<Duration>,
}

const CID_LEN: usize = 16;

impl s2n_quic::provider::connection_id::Validator for CidFormat {
    fn validate(&self, _info: &s2n_quic::provider::connection_id::ConnectionInfo, buffer: &[u8]) -> Option<usize> {
        if buffer.len() >= CID_LEN {
            Some(CID_LEN)
        } else {
            None
        }
    }
}

impl s2n_quic::provider::connection_id::Generator for CidFormat {
    fn generate(&mut self, _info: &s2n_quic::provider::connection_id::ConnectionInfo) -> s2n_quic::provider::connection_id::LocalId {
        let mut id = [0u8; CID_LEN];
        for b in id.iter_mut() {
            *b = self.rng.next() as u8;
        }
        s2n_quic::provider::connection_id::LocalId::try_from_bytes(&id[..]).unwrap()
    }
    fn lifetime(&self) -> Option<Duration> {
        self.lifetime
    }
}

fn cid_format(c: &AppCfg, stream: u64) -> CidFormat {
    CidFormat {
        rng: Rng::new(c.seed, stream),
        lifetime: if c.cid_lifetime_ms > 0 { Some(Duration::from_millis(c.cid_lifetime_ms)) } else { None },
    }
}

fn flow_size(c: &AppCfg, sid: u64, dir: u64) -> u64 {
    let idx = sid / 4;
    let r = mix(c.seed ^ mix(sid * 2 + dir + 0x77));
    match (idx + dir) % 4 {
        0 => c.bytes,
        1 => r % (c.bytes + 1),
        2 => c.bytes / 3,
        _ => r % 50,
    }
}

fn limits(c: &AppCfg, ep: usize) -> Limits {
    let mut l = Limits::new();
    if c.max_ack_delay_ms[ep] > 0 {
        l = l.with_max_ack_delay(Duration::from_millis(c.max_ack_delay_ms[ep])).unwrap();
    }
    if c.send_buf > 0 {
        l = l.with_max_send_buffer_size(c.send_buf.min(u32::MAX as u64) as u32).unwrap();
    }
    if c.active_cid_limit[ep] > 0 {
        l = l.with_max_active_connection_ids(c.active_cid_limit[ep]).unwrap();
    }
    l
        .with_data_window(c.conn_window)
        .unwrap()
        .with_bidirectional_local_data_window(c.stream_window)
        .unwrap()
        .with_bidirectional_remote_data_window(c.stream_window)
        .unwrap()
        .with_unidirectional_data_window(c.stream_window)
        .unwrap()
        .with_max_open_remote_bidirectional_streams(c.max_streams)
        .unwrap()
        .with_max_open_remote_unidirectional_streams(c.max_streams)
        .unwrap()
        .with_max_open_local_bidirectional_streams(1000)
        .unwrap()
        .with_max_open_local_unidirectional_streams(1000)
        .unwrap()
        .with_max_idle_timeout(Duration::from_millis(c.idle_ms))
        .unwrap()
        .with_max_handshake_duration(Duration::from_millis(HANDSHAKE_MS))
        .unwrap()
}

fn task_begin(sh: &Sh, ep: usize) {
    sh.lock().unwrap().ep[ep].tasks_started += 1;
}

fn task_end(sh: &Sh, ep: usize) {
    let mut s = sh.lock().unwrap();
    s.ep[ep].tasks_done += 1;
    s.ep[ep].last_task_done_us = now_us();
}

async fn writer(mut send: s2n_quic::stream::SendStream, c: AppCfg, sh: Sh, ep: usize, sid: u64, dir: u64) {
    let total = flow_size(&c, sid, dir);
    {
        let mut s = sh.lock().unwrap();
        let f = s.flow(sid, dir);
        f.expected = total;
    }
    let mut rng = Rng::new(c.seed, 1000 + sid * 2 + dir);
    let mut off = 0u64;
    let mut ok = true;
    while off < total {
        let n = (1 + rng.below(2 * c.chunk.max(1))).min(total - off);
        let data = Bytes::from(data_fill(c.seed, sid, dir, off, n as usize));
        {
            // the bytes are handed to the API now: from here on the reader may see them
            let mut s = sh.lock().unwrap();
            s.flow(sid, dir).written = off + n;
        }
        if c.pause_ms > 0 && off > 0 {
            time::delay(Duration::from_millis(c.pause_ms)).await;
        }
        let wmode = pick_mode(c.wmask, c.seed, sid, dir, 0x3131, 4).unwrap_or(0);
        let res: Result<u64, ()> = match wmode {
            1 => {
                // split the chunk into up to 4 Bytes
                let mut parts: Vec<Bytes> = Vec::new();
                let mut rest = data.clone();
                let k = 1 + rng.below(4);
                for i in 0..k {
                    if rest.is_empty() {
                        break;
                    }
                    let take = if i + 1 == k { rest.len() } else { (1 + rng.below(rest.len() as u64)) as usize };
                    parts.push(rest.split_to(take));
                }
                send.send_vectored(&mut parts).await.map(|_| n).map_err(|_| ())
            }
            2 => {
                // 2..3 slices, the first one small; the call may accept only a part
                let b = &data[..];
                let cut1 = (1 + rng.below(b.len().min(64) as u64) as usize).min(b.len());
                let cut2 = cut1 + if b.len() > cut1 { rng.below((b.len() - cut1) as u64 + 1) as usize } else { 0 };
                let slices = [std::io::IoSlice::new(&b[..cut1]), std::io::IoSlice::new(&b[cut1..cut2]), std::io::IoSlice::new(&b[cut2..])];
                let r = futures::future::poll_fn(|cx| tokio::io::AsyncWrite::poll_write_vectored(std::pin::Pin::new(&mut send), cx, &slices)).await;
                match r {
                    Ok(0) | Err(_) => Err(()),
                    Ok(k) => Ok(k as u64),
                }
            }
            3 => {
                use futures::io::AsyncWriteExt;
                send.write_all(&data[..]).await.map(|_| n).map_err(|_| ())
            }
            _ => send.send(data).await.map(|_| n).map_err(|_| ()),
        };
        match res {
            Ok(k) => {
                off += k;
                let mut s = sh.lock().unwrap();
                // only the accepted part counts as written (a partial vectored write)
                s.flow(sid, dir).written = off;
                s.last_progress_us = now_us();
            }
            Err(()) => {
                ok = false;
                break;
            }
        }
    }
    if ok && c.finish_mode == 0 {
        // finish and wait until everything including the FIN is acknowledged
        match send.close().await {
            Ok(()) => sh.lock().unwrap().flow(sid, dir).fin_written = 1,
            Err(_) => {
                // the FIN was requested even if the acknowledgement never came
                sh.lock().unwrap().flow(sid, dir).fin_written = 1;
                ok = false;
            }
        }
    } else if ok {
        match send.finish() {
            Ok(()) => {
                sh.lock().unwrap().flow(sid, dir).fin_written = 1;
                if send.flush().await.is_err() {
                    ok = false;
                }
            }
            Err(_) => ok = false,
        }
    }
    {
        let mut s = sh.lock().unwrap();
        if !ok {
            s.flow(sid, dir).err_w = 1;
        } else {
            s.last_progress_us = now_us();
        }
    }
    task_end(&sh, ep);
}

async fn reader(mut recv: s2n_quic::stream::ReceiveStream, c: AppCfg, sh: Sh, ep: usize, sid: u64, dir: u64) {
    use futures::io::AsyncReadExt;
    {
        let mut s = sh.lock().unwrap();
        let _ = s.flow(sid, dir);
    }
    let mut rng = Rng::new(c.seed, 5000 + sid * 2 + dir);
    let mut off = 0u64;
    let mut buf = vec![0u8; (2 * c.read_size as usize).max(2)];
    let rmode = pick_mode(c.rmask, c.seed, sid, dir, 0x5151, 6).unwrap_or(if c.read_size == 0 { 0 } else { 1 });
    let slots = if rmode == 4 { 1 + (mix(c.seed ^ sid) % 2) as usize } else { 1 + (mix(c.seed ^ sid ^ 0x99) % 4) as usize };
    let mut vec_done = false;
    let mut big: Vec<u8> = Vec::new();
    if rmode == 4 {
        // the slow reader: wait until the writer finished, then long enough for everything that
        // flow control admits to arrive and be reassembled
        for _ in 0..3000 {
            time::delay(Duration::from_millis(10)).await;
            let s = sh.lock().unwrap();
            let done = s.flows.iter().any(|f| f.sid == sid && f.dir == dir && (f.fin_written == 1 || f.err_w == 1));
            if done || s.ep[ep].closed == 1 {
                break;
            }
        }
        // the extra wait is given up as soon as the connection is closed: an application that sits
        // out a timer of its own must not count against the endpoint's deadline
        let mut waited = 0;
        while waited < c.slow_wait_ms && sh.lock().unwrap().ep[ep].closed == 0 {
            time::delay(Duration::from_millis(10)).await;
            waited += 10;
        }
    }
    loop {
        let got: Result<Option<Vec<u8>>, ()> = match rmode {
            0 => match recv.receive().await {
                Ok(Some(b)) => Ok(Some(b.to_vec())),
                Ok(None) => Ok(None),
                Err(_) => Err(()),
            },
            1 => {
                let n = 1 + rng.below(2 * c.read_size.max(1)) as usize;
                match recv.read(&mut buf[..n]).await {
                    Ok(0) => Ok(None),
                    Ok(k) => Ok(Some(buf[..k].to_vec())),
                    Err(_) => Err(()),
                }
            }
            5 => {
                // what tokio's AsyncReadExt::read_exact does: the same, partially filled ReadBuf is
                // handed to poll_read until it is full; at the end of the stream the filled part is the tail
                let n = 3000 + rng.below(17001) as usize;
                if big.len() < n {
                    big.resize(n, 0);
                }
                let mut rb = tokio::io::ReadBuf::new(&mut big[..n]);
                let mut res: Result<(), ()> = Ok(());
                loop {
                    let before = rb.filled().len();
                    let r = futures::future::poll_fn(|cx| tokio::io::AsyncRead::poll_read(std::pin::Pin::new(&mut recv), cx, &mut rb)).await;
                    if r.is_err() {
                        res = Err(());
                        break;
                    }
                    if rb.filled().len() == before || rb.remaining() == 0 {
                        break;
                    }
                }
                match res {
                    // bytes that were filled before an error are discarded, as read_exact does
                    Err(()) => Err(()),
                    Ok(()) if rb.filled().is_empty() => Ok(None),
                    Ok(()) => Ok(Some(rb.filled().to_vec())),
                }
            }
            3 => {
                let n = 1 + rng.below(2 * c.read_size.max(1)) as usize;
                let mut rb = tokio::io::ReadBuf::new(&mut buf[..n]);
                let r = futures::future::poll_fn(|cx| tokio::io::AsyncRead::poll_read(std::pin::Pin::new(&mut recv), cx, &mut rb)).await;
                match r {
                    Ok(()) if rb.filled().is_empty() => Ok(None),
                    Ok(()) => Ok(Some(rb.filled().to_vec())),
                    Err(_) => Err(()),
                }
            }
            _ => {
                // receive_vectored as the API documentation shows: loop until !is_open
                if vec_done {
                    Ok(None)
                } else {
                    let mut chunks = [Bytes::new(), Bytes::new(), Bytes::new(), Bytes::new()];
                    match recv.receive_vectored(&mut chunks[..slots]).await {
                        Ok((count, is_open)) => {
                            let mut v = Vec::new();
                            for ch in &chunks[..count] {
                                v.extend_from_slice(ch);
                            }
                            if !is_open {
                                vec_done = true;
                            }
                            if v.is_empty() && !is_open {
                                Ok(None)
                            } else {
                                Ok(Some(v))
                            }
                        }
                        Err(_) => Err(()),
                    }
                }
            }
        };
        let mut s = sh.lock().unwrap();
        let seed = s.seed;
        match got {
            Ok(Some(bytes)) => {
                let f = s.flow(sid, dir);
                for (i, b) in bytes.iter().enumerate() {
                    if f.first_wrong < 0 && *b != data_byte(seed, sid, dir, off + i as u64) {
                        f.first_wrong = (off + i as u64) as i128;
                    }
                }
                off += bytes.len() as u64;
                f.read = off;
                s.last_progress_us = now_us();
            }
            Ok(None) => {
                s.flow(sid, dir).clean_eos = 1;
                s.last_progress_us = now_us();
                break;
            }
            Err(()) => {
                s.flow(sid, dir).err_r = 1;
                break;
            }
        }
    }
    task_end(&sh, ep);
}

fn start_server(handle: &Handle, c: &AppCfg, sh: &Sh, tls: (String, String)) -> io::Result<std::net::SocketAddr> {
    macro_rules! build {
        ($cc:expr) => {
            Server::builder()
                .with_io(handle.builder().build()?)?
                .with_tls((tls.0.as_str(), tls.1.as_str()))?
                .with_event(Sub { ep: 1, sh: sh.clone(), peer_conn_window: c.conn_window })?
                .with_random(Random(Rng::new(c.seed, 2)))?
                .with_stateless_reset_token(ResetTokens(mix(c.seed ^ 0x7e57)))?
                .with_endpoint_limits(RetryFirst { retry: c.retry_first })?
                .with_connection_id(cid_format(c, 41))?
                .with_congestion_controller($cc)?
                .with_limits(limits(c, 1))?
                .with_packet_interceptor(Icpt { ep: 1, sh: sh.clone(), full: c.full_records, primary: None, pending_retire: vec![], own_id_logged: false, saw_max_data: false })?
                .start()?
        };
    }
    let mut server = if c.cc == 1 {
        build!(s2n_quic::provider::congestion_controller::Bbr::default())
    } else {
        build!(s2n_quic::provider::congestion_controller::Cubic::default())
    };
    let addr = server.local_addr()?;
    sh.lock().unwrap().ids[1] = (addr.port() as u64).wrapping_sub(49152);
    let c = c.clone();
    let sh = sh.clone();
    spawn(async move {
        while let Some(mut conn) = server.accept().await {
            let c = c.clone();
            let sh = sh.clone();
            if c.server_close_after_ms > 0 {
                let h = conn.handle();
                let at = c.server_close_after_ms;
                spawn(async move {
                    // counted from the moment the server application accepted the connection
                    time::delay(Duration::from_millis(at)).await;
                    h.close(3u32.into());
                });
            }
            spawn(async move {
                // this task owns the connection handle: the connection stays open while it waits
                loop {
                    match conn.accept().await {
                        Ok(Some(PeerStream::Bidirectional(stream))) => {
                            let sid = stream.id();
                            let (recv, send) = stream.split();
                            task_begin(&sh, 1);
                            task_begin(&sh, 1);
                            spawn(reader(recv, c.clone(), sh.clone(), 1, sid, 0));
                            spawn(writer(send, c.clone(), sh.clone(), 1, sid, 1));
                        }
                        Ok(Some(PeerStream::Receive(recv))) => {
                            let sid = recv.id();
                            task_begin(&sh, 1);
                            spawn(reader(recv, c.clone(), sh.clone(), 1, sid, 0));
                        }
                        Ok(None) | Err(_) => break,
                    }
                }
                // keep the handle until the simulation ends
                time::delay(Duration::from_secs(1_000_000)).await;
                drop(conn);
            });
        }
    });
    Ok(addr)
}

fn start_client(handle: &Handle, c: &AppCfg, sh: &Sh, addr: std::net::SocketAddr) -> io::Result<()> {
    let sh_sock = sh.clone();
    let rebinds = c.rebinds;
    let rebind_every = c.rebind_every_ms;
    let on_socket = move |socket: io::Socket| {
        let mut local = socket.local_addr().unwrap();
        sh_sock.lock().unwrap().ids[0] = (local.port() as u64).wrapping_sub(49152);
        if rebinds > 0 {
            spawn(async move {
                // never during the handshake: wait until the client's connect() has returned
                for _ in 0..4000 {
                    if sh_sock.lock().unwrap().connect_ok == 1 {
                        break;
                    }
                    time::delay(Duration::from_millis(5)).await;
                }
                for _ in 0..rebinds {
                    time::delay(Duration::from_millis(rebind_every)).await;
                    // a NAT rebinding: same host, new port (ports above the generated range)
                    local.set_port(local.port().wrapping_add(1000));
                    socket.rebind(local);
                    sh_sock.lock().unwrap().ids[0] = (local.port() as u64).wrapping_sub(49152);
                }
            });
        }
    };
    macro_rules! build {
        ($cc:expr) => {
            Client::builder()
                .with_io(handle.builder().on_socket(on_socket).build()?)?
                .with_tls(certificates::CERT_PEM)?
                .with_event(Sub { ep: 0, sh: sh.clone(), peer_conn_window: c.conn_window })?
                .with_random(Random(Rng::new(c.seed, 3)))?
                .with_connection_id(cid_format(c, 42))?
                .with_congestion_controller($cc)?
                .with_limits(limits(c, 0))?
                .with_packet_interceptor(Icpt { ep: 0, sh: sh.clone(), full: c.full_records, primary: None, pending_retire: vec![], own_id_logged: false, saw_max_data: false })?
                .start()?
        };
    }
    let client = if c.cc == 1 {
        build!(s2n_quic::provider::congestion_controller::Bbr::default())
    } else {
        build!(s2n_quic::provider::congestion_controller::Cubic::default())
    };
    let c = c.clone();
    let sh = sh.clone();
    // the controller is the only primary task: the simulation ends when it returns
    primary::spawn(async move {
        let _client_keep = client;
        let connect = Connect::new(addr).with_server_name("localhost");
        let expected_server_tasks = 2 * c.n_bidi + c.n_uni;
        let conn = match _client_keep.connect(connect).await {
            Ok(conn) => Some(conn),
            Err(_) => None,
        };
        if let Some(conn) = &conn {
            sh.lock().unwrap().connect_ok = 1;
            let mut opener = conn.handle();
            let c2 = c.clone();
            let sh2 = sh.clone();
            // stream opening may block on MAX_STREAMS credit: its own task
            let total_streams = c.n_bidi + c.n_uni;
            task_begin(&sh, 0);
            spawn(async move {
                let mut nb = 0;
                let mut nu = 0;
                for i in 0..total_streams {
                    // interleave the two stream types
                    let uni = (i % 3 == 2 && nu < c2.n_uni) || nb >= c2.n_bidi;
                    if uni {
                        nu += 1;
                        match opener.open_send_stream().await {
                            Ok(send) => {
                                let sid = send.id();
                                sh2.lock().unwrap().opened.push(sid);
                                task_begin(&sh2, 0);
                                spawn(writer(send, c2.clone(), sh2.clone(), 0, sid, 0));
                            }
                            Err(_) => break,
                        }
                    } else {
                        nb += 1;
                        match opener.open_bidirectional_stream().await {
                            Ok(stream) => {
                                let sid = stream.id();
                                sh2.lock().unwrap().opened.push(sid);
                                let (recv, send) = stream.split();
                                task_begin(&sh2, 0);
                                task_begin(&sh2, 0);
                                spawn(writer(send, c2.clone(), sh2.clone(), 0, sid, 0));
                                spawn(reader(recv, c2.clone(), sh2.clone(), 0, sid, 1));
                            }
                            Err(_) => break,
                        }
                    }
                }
                task_end(&sh2, 0);
            });
        }
        // wait until every application task has resolved (or the watchdog)
        loop {
            time::delay(Duration::from_millis(20)).await;
            let now = now_us();
            let mut s = sh.lock().unwrap();
            if now >= c.watchdog_us {
                s.watchdog_hit = 1;
                break;
            }
            let c_done = s.ep[0].tasks_done == s.ep[0].tasks_started;
            let s_done = s.ep[1].tasks_done == s.ep[1].tasks_started;
            let client_dead = conn.is_none() || s.ep[0].closed == 1;
            let server_dead = s.ep[1].conn_started == 0 || s.ep[1].closed == 1;
            let all_seen = s.ep[1].tasks_started == expected_server_tasks;
            if c_done && s_done && ((all_seen && !client_dead) || (client_dead && server_dead)) {
                break;
            }
        }
        if let Some(conn) = &conn {
            let dead = sh.lock().unwrap().ep[0].closed == 1;
            if c.close_at_end && !dead {
                conn.close(7u32.into());
                time::delay(Duration::from_millis(1500)).await;
            }
        }
        drop(conn);
    });
    Ok(())
}

fn push_ep(out: &mut Vec<V>, e: &Ep) {
    out.extend_from_slice(&[
        e.conn_started as V,
        e.closed as V,
        e.closed_class as V,
        e.closed_us as V,
        e.last_rx_us as V,
        e.idle_base_us as V,
        e.max_pto_us as V,
        e.tasks_started as V,
        e.tasks_done as V,
        e.last_task_done_us as V,
        e.tp_rx as V,
        e.conn_start_us as V,
    ]);
}

fn push_flows(out: &mut Vec<V>, s: &Shared) {
    let mut flows = s.flows.clone();
    flows.sort_by_key(|f| (f.sid, f.dir));
    out.push(flows.len() as V);
    for f in &flows {
        out.extend_from_slice(&[
            f.sid as V,
            f.dir as V,
            f.expected as V,
            f.written as V,
            f.fin_written as V,
            f.read as V,
            f.first_wrong,
            f.clean_eos as V,
            f.err_w as V,
            f.err_r as V,
        ]);
    }
}

fn new_shared(seed: u64) -> Sh {
    let mut s = Shared { seed, ..Default::default() };
    s.ep[0].handshake_rx_us = -1;
    s.ep[1].handshake_rx_us = -1;
    s.ep[0].closed_code = -1;
    s.ep[1].closed_code = -1;
    Arc::new(Mutex::new(s))
}

fn server_tls(extra_chain: u64) -> (String, String) {
    // a longer certificate chain: the leaf followed by copies of other test certificates
    let mut chain = String::from(certificates::CERT_PEM);
    for i in 0..extra_chain {
        if !chain.ends_with('\n') {
            chain.push('\n');
        }
        chain.push_str(if i % 2 == 0 { certificates::CERT_PKCS1_PEM } else { certificates::UNTRUSTED_CERT_PEM });
    }
    (chain, String::from(certificates::KEY_PEM))
}

// ------------------------------------------------------------------------------------------
// e2e_stream
// ------------------------------------------------------------------------------------------
//
// case: [seed, drop_pm, dup_pm, corrupt_pm, jitter_ms, max_udp, n_bidi, bytes, stream_window,
//        conn_window, max_streams, chunk, read_size, blackhole_after_ms, blackhole_len_ms (0 = forever),
//        n_uni, delay_ms, idle_ms, fault_until_ms, close_at_end, finish_mode, write_modes_mask, read_modes_mask,
//        max_send_buffer_size, max_data_drop_pm (datagrams carrying MAX_DATA, while faults are active)]
//
// output: [1, watchdog_hit, sim_end_us, last_progress_us, connect_ok, n_bidi, n_uni, idle_ms, perm_bh, handshake_ms,
//          client: 12 ints, server: 12 ints (push_ep),
//          n_flows, flows x 10, n_opened, opened stream ids,
//          capped, n_records, records x 11]

fn run_sim(net_cfg: NetCfg, app: AppCfg, sh: Sh, extra: impl FnOnce(&Handle, std::net::SocketAddr) -> io::Result<()>, chain: u64) -> (u64, Arc<Mutex<[u64; INJ_KINDS]>>) {
    let net = Net::new(net_cfg, sh.clone());
    let injected = net.injected.clone();
    let sh2 = sh.clone();
    let end = test_seed(net, app.seed, move |handle| {
        let addr = start_server(handle, &app, &sh2, server_tls(chain))?;
        extra(handle, addr)?;
        start_client(handle, &app, &sh2, addr)?;
        Ok(())
    })
    .expect("simulation setup");
    (end.as_micros() as u64, injected)
}

fn e2e_stream(input: &[V]) -> Vec<V> {
    let mut c = Cur::new(input);
    let seed = c.u64();
    let drop_pm = c.u64().min(1000);
    let dup_pm = c.u64().min(1000);
    let corrupt_pm = c.u64().min(1000);
    let jitter_ms = c.u64().min(2000);
    let max_udp = c.u64().clamp(1200, 65535) as usize;
    let n_bidi = c.u64().min(64);
    let bytes = c.u64().min(400_000);
    let stream_window = c.u64().clamp(1, u32::MAX as u64);
    let conn_window = c.u64().clamp(1, u32::MAX as u64);
    let max_streams = c.u64().clamp(1, 1000);
    let chunk = c.u64().clamp(1, 1 << 20);
    let read_size = c.u64().min(1 << 20);
    let bh_after_ms = c.u64();
    let bh_len_ms = c.u64();
    let n_uni = c.u64().min(64);
    let delay_ms = c.u64().clamp(1, 2000);
    let idle_ms = c.u64().clamp(1000, 600_000);
    let fault_until_ms = c.u64();
    let close_at_end = c.u64() != 0;
    let finish_mode = c.u64().min(1);
    let wmask = c.u64() & 15;
    let rmask = c.u64() & 63;
    let send_buf = c.u64().min(1 << 24);
    let md_drop_pm = c.u64().min(1000);

    let sh = new_shared(seed);
    let app = AppCfg {
        seed,
        n_bidi,
        n_uni,
        bytes,
        stream_window,
        conn_window,
        max_streams,
        chunk,
        read_size,
        idle_ms,
        watchdog_us: 900_000_000,
        close_at_end,
        full_records: true,
        finish_mode,
        wmask,
        rmask,
        send_buf,
        slow_wait_ms: 6 * delay_ms + 2 * jitter_ms + 50,
        ..Default::default()
    };
    let net = NetCfg {
        seed,
        drop_pm,
        dup_pm,
        corrupt_pm,
        jitter_ms,
        delay_ms,
        max_udp,
        fault_until_us: fault_until_ms * 1000,
        bh_start_us: bh_after_ms * 1000,
        bh_end_us: if bh_len_ms == 0 { u64::MAX } else { (bh_after_ms + bh_len_ms) * 1000 },
        md_drop_pm,
        ..Default::default()
    };
    let (end_us, _) = run_sim(net, app, sh.clone(), |_, _| Ok(()), 0);

    let s = sh.lock().unwrap();
    let perm_bh = (bh_after_ms > 0 && bh_len_ms == 0) as V;
    let mut out: Vec<V> = vec![
        1,
        s.watchdog_hit as V,
        end_us as V,
        s.last_progress_us as V,
        s.connect_ok as V,
        n_bidi as V,
        n_uni as V,
        idle_ms as V,
        perm_bh,
        HANDSHAKE_MS as V,
    ];
    push_ep(&mut out, &s.ep[0]);
    push_ep(&mut out, &s.ep[1]);
    push_flows(&mut out, &s);
    out.push(s.opened.len() as V);
    out.extend(s.opened.iter().map(|x| *x as V));
    out.push(s.capped as V);
    out.push(s.records.len() as V);
    for r in &s.records {
        out.extend_from_slice(r);
    }
    out
}

// ------------------------------------------------------------------------------------------
// e2e_amp
// ------------------------------------------------------------------------------------------
//
// case: [seed, drop_pm, dup_pm, jitter_ms, delay_ms, chain_extra, n_raw, raw_kinds_mask, raw_per_sender,
//        fault_until_ms, bytes, corrupt_pm, rebind_at_ms (0 = no rebinding), server_close_ms, pause_ms]
// output: [1, server_id, client_id, n_raw, server_first_handshake_rx_us (-1 = never), connect_ok,
//          watchdog_hit, wire_capped, n_wire, client_id_after_rebinding (-1 = none), wire x 7: (t_us, kind, src, dst, len, first byte, class)]
//   kind 0 = put on the wire by src, 1 = delivered to dst, 2 = marker: the server processed the
//   first client Handshake packet (address validated); 3 = marker: the server validated the path
//   to the address in src; class: see classify()

fn raw_datagram(rng: &mut Rng, kind: u64) -> Vec<u8> {
    let pick = |rng: &mut Rng, v: &[usize]| v[rng.below(v.len() as u64) as usize];
    match kind {
        0 => {
            // garbage
            let len = pick(rng, &[1, 5, 20, 21, 40, 43, 100, 600, 1199, 1200, 1201, 1400]);
            (0..len).map(|_| rng.next() as u8).collect()
        }
        1 => {
            // Initial-shaped long header packet with an unknown version
            let size = pick(rng, &[60, 1100, 1199, 1200, 1201, 1350, 1472]);
            let mut v = vec![0xC0 | (rng.next() as u8 & 0x0f)];
            let ver: u32 = [0x1a2a_3a4a, 0xff00_001d, 0x0000_0002, 0xbaba_baba][rng.below(4) as usize];
            v.extend_from_slice(&ver.to_be_bytes());
            v.push(8);
            for _ in 0..8 {
                v.push(rng.next() as u8);
            }
            v.push(8);
            for _ in 0..8 {
                v.push(rng.next() as u8);
            }
            v.push(0); // token length
            let rest = size.saturating_sub(v.len() + 2);
            v.push(0x40 | ((rest >> 8) as u8 & 0x3f));
            v.push(rest as u8);
            while v.len() < size {
                v.push(rng.next() as u8);
            }
            v
        }
        2 => {
            // short header, unknown connection id
            let len = pick(rng, &[5, 20, 21, 22, 38, 39, 40, 41, 42, 43, 44, 60, 100, 1200]);
            let mut v: Vec<u8> = (0..len).map(|_| rng.next() as u8).collect();
            v[0] = 0x40 | (v[0] & 0x3f);
            v
        }
        _ => {
            // a Version Negotiation packet (long header, version 0), small or padded with versions
            let size = pick(rng, &[31, 47, 1199, 1200, 1203, 1400]);
            let mut v = vec![0x80 | (rng.next() as u8 & 0x7f)];
            v.extend_from_slice(&[0, 0, 0, 0]);
            v.push(8);
            for _ in 0..8 {
                v.push(rng.next() as u8);
            }
            v.push(8);
            for _ in 0..8 {
                v.push(rng.next() as u8);
            }
            while v.len() + 4 <= size {
                v.extend_from_slice(&[0x1a, 0x2a, 0x3a, 0x4a]);
            }
            v
        }
    }
}

fn e2e_amp(input: &[V]) -> Vec<V> {
    let mut c = Cur::new(input);
    let seed = c.u64();
    let drop_pm = c.u64().min(1000);
    let dup_pm = c.u64().min(1000);
    let jitter_ms = c.u64().min(2000);
    let delay_ms = c.u64().clamp(1, 2000);
    let chain = c.u64().min(6);
    let n_raw = c.u64().min(8);
    let raw_mask = c.u64() & 15;
    let raw_per = c.u64().min(40);
    let fault_until_ms = c.u64();
    let bytes = c.u64().min(100_000);
    let corrupt_pm = c.u64().min(1000);
    // rebinding scenario: the client's socket moves to a new port at this time; only its first
    // datagram from there gets through (silence afterwards); the server application closes later
    let rebind_at_ms = c.u64().min(60_000);
    let server_close_ms = c.u64().min(120_000);
    let pause_ms = c.u64().min(5_000);

    let sh = new_shared(seed);
    sh.lock().unwrap().wire_on = true;
    let app = AppCfg {
        seed,
        n_bidi: 1,
        n_uni: 0,
        bytes,
        stream_window: 65536,
        conn_window: 262144,
        max_streams: 10,
        chunk: 1000,
        read_size: 0,
        idle_ms: 8000,
        watchdog_us: 120_000_000,
        close_at_end: false,
        full_records: false,
        finish_mode: 0,
        rebinds: (rebind_at_ms > 0) as u64,
        rebind_every_ms: rebind_at_ms.max(1),
        server_close_after_ms: if rebind_at_ms > 0 { server_close_ms } else { 0 },
        pause_ms,
        ..Default::default()
    };
    // the server is the first socket (id 0), then the raw senders, then the client
    let client_id = 1 + n_raw;
    let client_id2: i128 = if rebind_at_ms > 0 { client_id as i128 + 1000 } else { -1 };
    let net = NetCfg {
        seed,
        drop_pm,
        dup_pm,
        corrupt_pm,
        jitter_ms,
        delay_ms,
        max_udp: 65535,
        fault_until_us: fault_until_ms * 1000,
        fault_hosts: Some((0, client_id)),
        only_first_from: if rebind_at_ms > 0 { Some(client_id + 1000) } else { None },
        ..Default::default()
    };
    let raw = move |handle: &Handle, addr: std::net::SocketAddr| -> io::Result<()> {
        for i in 0..n_raw {
            let socket = handle.builder().build()?.socket();
            let mut rng = Rng::new(seed, 900 + i);
            spawn(async move {
                let kinds: Vec<u64> = (0..4).filter(|k| raw_mask & (1 << k) != 0).collect();
                for k in 0..raw_per {
                    // distinct virtual instants for every raw datagram of the run
                    time::delay(Duration::from_micros(if k == 0 { 1000 + 1700 * i } else { 1700 * n_raw })).await;
                    if kinds.is_empty() {
                        break;
                    }
                    let kind = kinds[rng.below(kinds.len() as u64) as usize];
                    let d = raw_datagram(&mut rng, kind);
                    let _ = socket.send_to(addr, Default::default(), d);
                }
                // keep the socket registered
                time::delay(Duration::from_secs(1_000_000)).await;
                drop(socket);
            });
        }
        Ok(())
    };
    let (_end_us, _) = run_sim(net, app, sh.clone(), raw, chain);

    let s = sh.lock().unwrap();
    let mut out: Vec<V> = vec![
        1,
        0,
        client_id as V,
        n_raw as V,
        s.ep[1].handshake_rx_us,
        s.connect_ok as V,
        s.watchdog_hit as V,
        s.wire_capped as V,
        s.wire.len() as V,
        client_id2,
    ];
    for r in &s.wire {
        out.extend_from_slice(r);
    }
    out
}

// ------------------------------------------------------------------------------------------
// e2e_inject
// ------------------------------------------------------------------------------------------
//
// case: [seed, inject_pm, inject_kinds_mask, inject_from_ms, inject_len_ms, n_bidi, bytes, delay_ms,
//        drop_pm, jitter_ms, n_uni, chunk, read_size]
// output: [1, watchdog_hit, connect_ok, n_bidi, n_uni, client x12, server x12, n_flows, flows x10,
//          injected x6 (random, bit flip, truncation, splice, replay, header+random),
//          then per endpoint (client, server): proc_capped, n_processed, (space, pn, genuine) x n
//          sorted by (space, pn); genuine = the peer's tx interceptor emitted a packet with this
//          space, number and cleartext payload]

fn e2e_inject(input: &[V]) -> Vec<V> {
    let mut c = Cur::new(input);
    let seed = c.u64();
    let inject_pm = c.u64().min(1000);
    let kinds = c.u64() & 63;
    let from_ms = c.u64();
    let len_ms = c.u64();
    let n_bidi = c.u64().clamp(1, 16);
    let bytes = c.u64().min(6_000_000);
    let delay_ms = c.u64().clamp(1, 1000);
    let drop_pm = c.u64().min(300);
    let jitter_ms = c.u64().min(500);
    let n_uni = c.u64().min(8);
    let chunk = c.u64().clamp(1, 1 << 20);
    let read_size = c.u64().min(1 << 20);

    let sh = new_shared(seed);
    let app = AppCfg {
        seed,
        n_bidi,
        n_uni,
        bytes,
        // a long upload gets windows that allow hundreds of packets in flight: packet numbers are
        // then encoded in two bytes and old replays still decode to their own number
        stream_window: if bytes > 1_000_000 { 4_000_000 } else { 100_000 },
        conn_window: if bytes > 1_000_000 { 8_000_000 } else { 400_000 },
        max_streams: 100,
        chunk,
        read_size,
        idle_ms: 30_000,
        watchdog_us: 600_000_000,
        close_at_end: false,
        full_records: false,
        finish_mode: 0,
        ..Default::default()
    };
    let net = NetCfg {
        seed,
        drop_pm,
        jitter_ms,
        delay_ms,
        max_udp: 65535,
        fault_until_us: (from_ms + len_ms) * 1000,
        inject_pm,
        inject_from_us: from_ms * 1000,
        inject_until_us: (from_ms + len_ms) * 1000,
        inject_kinds: kinds,
        ..Default::default()
    };
    let (_end_us, injected) = run_sim(net, app, sh.clone(), |_, _| Ok(()), 0);

    let s = sh.lock().unwrap();
    let mut out: Vec<V> = vec![1, s.watchdog_hit as V, s.connect_ok as V, n_bidi as V, n_uni as V];
    push_ep(&mut out, &s.ep[0]);
    push_ep(&mut out, &s.ep[1]);
    push_flows(&mut out, &s);
    for k in injected.lock().unwrap().iter() {
        out.push(*k as V);
    }
    for ep in 0..2 {
        let me = &s.ep[ep];
        let peer = &s.ep[1 - ep];
        let mut p = me.processed.clone();
        p.sort();
        out.push((me.processed.len() >= PROC_CAP) as V);
        out.push(p.len() as V);
        for (space, pn, ck) in p {
            out.push(space as V);
            out.push(pn as V);
            out.push(peer.emitted.contains(&(space, pn, ck)) as V);
        }
    }
    out
}

// ------------------------------------------------------------------------------------------
// e2e_pn (C08)
// ------------------------------------------------------------------------------------------
//
// case: [seed, retry_first, drop_pm, dup_pm, jitter_ms, delay_ms, n_bidi, bytes, max_ack_delay_ms,
//        fault_until_ms, cc, n_uni, corrupt_pm, server_max_ack_delay_ms (0 = same), pause_ms, chunk]
// output: [1, watchdog_hit, connect_ok, end_us, client max_ack_delay_us, capped, n_rows,
//          server max_ack_delay_us, rows x 8]   (each endpoint's OWN advertised max_ack_delay)
//   rows (kind, endpoint, space, a, b, t_us, 0, 0), in order of occurrence:
//   0 packet built for sending: a = packet number, b = ack eliciting
//   1 packet processed:         a = packet number, b = ack eliciting
//   2 one range of an ACK frame this endpoint sends: a..=b
//   3 the keys of the space were discarded
//   4 the connection ended at this endpoint (closed, or CONNECTION_CLOSE sent)
//   5 recovery metrics of this endpoint: a = congestion window, b = smoothed rtt (us)
//   end_us = virtual time at which the recording stopped (end of the run, or the cap)

fn e2e_pn(input: &[V]) -> Vec<V> {
    let mut c = Cur::new(input);
    let seed = c.u64();
    let retry_first = c.u64().min(3);
    let drop_pm = c.u64().min(400);
    let dup_pm = c.u64().min(1000);
    let jitter_ms = c.u64().min(1000);
    let delay_ms = c.u64().clamp(1, 1000);
    let n_bidi = c.u64().clamp(1, 8);
    let bytes = c.u64().min(400_000);
    let mad_ms = c.u64().min(1000);
    let fault_until_ms = c.u64();
    let cc = c.u64().min(1);
    let n_uni = c.u64().min(4);
    let corrupt_pm = c.u64().min(500);
    // the server's own max_ack_delay (0 = the same as the client's), and sparse traffic: the
    // writers pause between chunks so that lone in-order packets arrive with nothing else to send
    let mad_srv_ms = c.u64().min(1000);
    let mad_srv_ms = if mad_srv_ms == 0 { mad_ms } else { mad_srv_ms };
    let pause_ms = c.u64().min(5000);
    let chunk = c.u64().min(100_000);

    let sh = new_shared(seed);
    sh.lock().unwrap().xmode = 1;
    let app = AppCfg {
        seed,
        n_bidi,
        n_uni,
        bytes,
        stream_window: 200_000,
        conn_window: 1_000_000,
        max_streams: 100,
        chunk: if chunk == 0 { 3000 } else { chunk },
        read_size: 0,
        idle_ms: 30_000,
        watchdog_us: 300_000_000,
        close_at_end: true,
        retry_first,
        cc,
        max_ack_delay_ms: [mad_ms, mad_srv_ms],
        pause_ms,
        ..Default::default()
    };
    let net = NetCfg {
        seed,
        drop_pm,
        dup_pm,
        corrupt_pm,
        jitter_ms,
        delay_ms,
        max_udp: 65535,
        fault_until_us: fault_until_ms * 1000,
        ..Default::default()
    };
    let (end_us, _) = run_sim(net, app, sh.clone(), |_, _| Ok(()), 0);
    let s = sh.lock().unwrap();
    let end = if s.xcapped { s.xlog.last().map(|r| r[5]).unwrap_or(0) } else { end_us as V };
    let mad_us = if mad_ms == 0 { 25_000 } else { mad_ms * 1000 };
    let mad_srv_us = if mad_srv_ms == 0 { 25_000 } else { mad_srv_ms * 1000 };
    let mut out: Vec<V> = vec![1, s.watchdog_hit as V, s.connect_ok as V, end, mad_us as V, s.xcapped as V, s.xlog.len() as V, mad_srv_us as V];
    for r in &s.xlog {
        out.extend_from_slice(r);
    }
    out
}

// ------------------------------------------------------------------------------------------
// e2e_cid (C13)
// ------------------------------------------------------------------------------------------
//
// case: [seed, cid_lifetime_s (0 = none, else >= 60), limit_client, limit_server, rebinds,
//        rebind_every_ms, drop_pm, delay_ms, pause_ms, bytes, n_bidi, jitter_ms, fault_until_ms]
// output: [1, watchdog_hit, connect_ok, limit_client, limit_server, capped, n_rows, rows x 8]
//   rows (kind, endpoint, seq, retire_prior_to, id hash, token hash, dcid hash, t_us):
//   0 NEW_CONNECTION_ID sent            1 RETIRE_CONNECTION_ID sent (dcid hash = destination id of
//   2 NEW_CONNECTION_ID received          the datagram that carries it, -1 unknown)
//   3 RETIRE_CONNECTION_ID received     4 datagram dropped: unknown destination id (id hash)
//   5 this endpoint's handshake connection id = sequence number 0 (id hash)
//   6 transport parameters received: seq field = the peer's active_connection_id_limit

fn e2e_cid(input: &[V]) -> Vec<V> {
    let mut c = Cur::new(input);
    let seed = c.u64();
    let life_s = c.u64();
    let life_s = if life_s == 0 { 0 } else { life_s.clamp(60, 3600) };
    let limit_c = c.u64().clamp(2, 8);
    let limit_s = c.u64().clamp(2, 8);
    let rebinds = c.u64().min(4);
    let rebind_every_ms = c.u64().clamp(100, 600_000);
    let drop_pm = c.u64().min(300);
    let delay_ms = c.u64().clamp(1, 500);
    let pause_ms = c.u64().min(120_000);
    let bytes = c.u64().min(200_000);
    let n_bidi = c.u64().clamp(1, 4);
    let jitter_ms = c.u64().min(500);
    let fault_until_ms = c.u64();

    let sh = new_shared(seed);
    {
        let mut s = sh.lock().unwrap();
        s.xmode = 2;
        s.cid_len = CID_LEN;
    }
    let app = AppCfg {
        seed,
        n_bidi,
        n_uni: 0,
        bytes,
        stream_window: 400_000,
        conn_window: 1_000_000,
        max_streams: 100,
        chunk: (bytes / 16).max(1),
        read_size: 0,
        idle_ms: (4 * pause_ms).max(30_000),
        watchdog_us: 3_000_000_000,
        close_at_end: true,
        cid_lifetime_ms: life_s * 1000,
        active_cid_limit: [limit_c, limit_s],
        pause_ms,
        rebinds,
        rebind_every_ms,
        ..Default::default()
    };
    let net = NetCfg {
        seed,
        drop_pm,
        jitter_ms,
        delay_ms,
        max_udp: 65535,
        fault_until_us: fault_until_ms * 1000,
        ..Default::default()
    };
    let _ = run_sim(net, app, sh.clone(), |_, _| Ok(()), 0);
    let s = sh.lock().unwrap();
    let mut out: Vec<V> = vec![1, s.watchdog_hit as V, s.connect_ok as V, limit_c as V, limit_s as V, s.xcapped as V, s.xlog.len() as V];
    for r in &s.xlog {
        out.extend_from_slice(r);
    }
    out
}

// ------------------------------------------------------------------------------------------
// e2e_cc (C09 / C10)
// ------------------------------------------------------------------------------------------
//
// case: [seed, cc (0 cubic, 1 bbr), drop_pm, dup_pm, jitter_ms, delay_ms, n_bidi, bytes, fault_until_ms,
//        n_uni, max_udp]
// output: [1, watchdog_hit, connect_ok, cc, capped, n_rows, rows x 8]
//   rows (kind, endpoint, x, a, b, c, d, t_us), events of the sending side of each endpoint:
//   0 packet sent: x = space, a = packet number, b = bytes, c = ack eliciting (-1 unknown), d = mode
//     (0 normal, 1 loss recovery probe, 2 MTU probe, 3 path validation)
//   1 ACK range received: x = space, a..=b        2 packet lost: x = space, a = pn, b = bytes, c = MTU probe
//   3 recovery metrics: x = pto_count, a = cwnd, b = bytes_in_flight, c = smoothed rtt us, d = latest rtt us
//   4 key space discarded: x = space              5 congestion event      6 MTU updated: a = mtu
//   7 connection closed

fn e2e_cc(input: &[V]) -> Vec<V> {
    let mut c = Cur::new(input);
    let seed = c.u64();
    let cc = c.u64().min(1);
    let drop_pm = c.u64().min(300);
    let dup_pm = c.u64().min(500);
    let jitter_ms = c.u64().min(500);
    let delay_ms = c.u64().clamp(1, 500);
    let n_bidi = c.u64().clamp(1, 4);
    let bytes = c.u64().min(400_000);
    let fault_until_ms = c.u64();
    let n_uni = c.u64().min(2);
    let max_udp = c.u64().clamp(1200, 65535) as usize;

    let sh = new_shared(seed);
    sh.lock().unwrap().xmode = 3;
    let app = AppCfg {
        seed,
        n_bidi,
        n_uni,
        bytes,
        stream_window: 1_000_000,
        conn_window: 4_000_000,
        max_streams: 100,
        chunk: 20_000,
        read_size: 0,
        idle_ms: 30_000,
        watchdog_us: 600_000_000,
        close_at_end: true,
        cc,
        ..Default::default()
    };
    let net = NetCfg {
        seed,
        drop_pm,
        dup_pm,
        jitter_ms,
        delay_ms,
        max_udp,
        fault_until_us: fault_until_ms * 1000,
        ..Default::default()
    };
    let _ = run_sim(net, app, sh.clone(), |_, _| Ok(()), 0);
    let s = sh.lock().unwrap();
    let mut out: Vec<V> = vec![1, s.watchdog_hit as V, s.connect_ok as V, cc as V, s.xcapped as V, s.xlog.len() as V];
    for r in &s.xlog {
        out.extend_from_slice(r);
    }
    out
}

// ------------------------------------------------------------------------------------------
// e2e_violate (C04)
// ------------------------------------------------------------------------------------------
//
// An otherwise honest client whose tx interceptor rewrites one packet so that it breaks one rule;
// the victim is the server.  Lossless network.
// case: [seed, kind (1..8), after_n, n_bidi, n_uni, bytes, stream_window, conn_window, max_streams, delay_ms]
// output: [1, kind, injected (0/1), inject_time_us, expected_code, delay_ms,
//          server closed, server close class, server transport code, server closed_us, server close local,
//          n_flows, flows x10]

fn e2e_violate(input: &[V]) -> Vec<V> {
    let mut c = Cur::new(input);
    let seed = c.u64();
    let kind = c.u64().clamp(1, 8);
    let after_n = c.u64().clamp(1, 50);
    let n_bidi = c.u64().clamp(1, 4);
    let n_uni = c.u64().clamp(1, 3);
    let bytes = c.u64().clamp(20_000, 300_000);
    let stream_window = c.u64().clamp(10_000, 1 << 20);
    let conn_window = c.u64().clamp(20_000, 1 << 22);
    let max_streams = c.u64().clamp(8, 100);
    let delay_ms = c.u64().clamp(1, 200);
    // kind 2 needs room in the stream window beyond the connection window
    let (stream_window, conn_window) = if kind == 2 { (stream_window.max(conn_window + 50_000), conn_window) } else { (stream_window, conn_window) };

    let sh = new_shared(seed);
    sh.lock().unwrap().viol = Some(Viol { kind, after_n, stream_window, conn_window, max_streams, done_us: -1, ..Default::default() });
    let app = AppCfg {
        seed,
        n_bidi,
        n_uni,
        bytes,
        stream_window,
        conn_window,
        max_streams,
        chunk: 4000,
        read_size: 0,
        idle_ms: 10_000,
        watchdog_us: 120_000_000,
        close_at_end: false,
        ..Default::default()
    };
    let net = NetCfg { seed, delay_ms, max_udp: 65535, ..Default::default() };
    let _ = run_sim(net, app, sh.clone(), |_, _| Ok(()), 0);
    let s = sh.lock().unwrap();
    let v = s.viol.clone().unwrap();
    let expected: V = match kind {
        1 | 2 => 3,
        3 => 4,
        4 | 6 => 6,
        5 | 7 => 5,
        _ => 10,
    };
    let e = &s.ep[1];
    let mut out: Vec<V> = vec![
        1,
        kind as V,
        (v.done_us >= 0) as V,
        v.done_us,
        expected,
        delay_ms as V,
        e.closed as V,
        e.closed_class as V,
        e.closed_code,
        e.closed_us as V,
        e.closed_local as V,
    ];
    push_flows(&mut out, &s);
    out
}

/// A panic inside a simulation can leave the executor's thread-local state behind, and a later
/// simulation in the same process may then spin forever.  So a panicking case ends the process
/// (exit code 3, message on stderr): the orchestrator re-runs the lines of that shard one by one
/// and reports the case as `!crash`, which every judge rejects.
macro_rules! guarded {
    ($f:ident) => {{
        fn g(input: &[V]) -> Vec<V> {
            match std::panic::catch_unwind(|| $f(input)) {
                Ok(v) => v,
                Err(e) => {
                    let msg = if let Some(s) = e.downcast_ref::<&str>() {
                        s.to_string()
                    } else if let Some(s) = e.downcast_ref::<String>() {
                        s.clone()
                    } else {
                        "?".to_string()
                    };
                    eprintln!("panic in {}: {}", stringify!($f), msg.replace('\n', " "));
                    std::process::exit(3)
                }
            }
        }
        g as h_common::Component
    }};
}

fn main() {
    // e2e_stream_cXX: the same run, judged for one property only by the extracted monitor
    h_common::main_with(&[
        ("e2e_stream", guarded!(e2e_stream)),
        ("e2e_stream_c01", guarded!(e2e_stream)),
        ("e2e_stream_c02", guarded!(e2e_stream)),
        ("e2e_stream_c03", guarded!(e2e_stream)),
        ("e2e_stream_c12", guarded!(e2e_stream)),
        ("e2e_amp", guarded!(e2e_amp)),
        ("e2e_inject", guarded!(e2e_inject)),
        ("e2e_pn", guarded!(e2e_pn)),
        ("e2e_cid", guarded!(e2e_cid)),
        ("e2e_cc", guarded!(e2e_cc)),
        ("e2e_violate", guarded!(e2e_violate)),
    ]);
}
