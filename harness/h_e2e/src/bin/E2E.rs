fn main() { h_common::main_with(&[]); }
