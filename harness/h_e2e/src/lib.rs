// end-to-end drivers live in src/bin/E2E.rs
