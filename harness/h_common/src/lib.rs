//! Shared line protocol of the correspondence harness.
//!
//! A case is one line of space separated hexadecimal integers (optionally negative).
//! A component maps the integers of a case to a list of integers, printed the same way.
//! Panics of the implementation are caught and printed as `!panic <message>`.

use std::io::{BufRead, Write};

pub type V = i128;

pub fn parse_line(line: &str) -> Vec<V> {
    line.split_ascii_whitespace()
        .map(|t| {
            if let Some(r) = t.strip_prefix('-') {
                -(i128::from_str_radix(r, 16).expect("hex"))
            } else {
                i128::from_str_radix(t, 16).expect("hex")
            }
        })
        .collect()
}

pub fn fmt_line(vals: &[V]) -> String {
    let mut s = String::with_capacity(vals.len() * 4);
    for (i, v) in vals.iter().enumerate() {
        if i > 0 {
            s.push(' ');
        }
        if *v < 0 {
            s.push('-');
            s.push_str(&format!("{:x}", -*v));
        } else {
            s.push_str(&format!("{:x}", *v));
        }
    }
    s
}

pub type Component = fn(&[V]) -> Vec<V>;

/// usage: <bin> <component> < cases > results
pub fn main_with(components: &[(&str, Component)]) {
    // silence the default panic hook: panics are results here
    std::panic::set_hook(Box::new(|_| {}));
    let name = std::env::args().nth(1).expect("component name");
    let f = components
        .iter()
        .find(|(n, _)| *n == name)
        .unwrap_or_else(|| {
            eprintln!("unknown component {name}");
            std::process::exit(2)
        })
        .1;
    let stdin = std::io::stdin();
    let stdout = std::io::stdout();
    let mut out = std::io::BufWriter::new(stdout.lock());
    for line in stdin.lock().lines() {
        let line = line.expect("read");
        let input = parse_line(&line);
        let res = std::panic::catch_unwind(move || f(&input));
        match res {
            Ok(vals) => writeln!(out, "{}", fmt_line(&vals)).unwrap(),
            Err(e) => {
                let msg = if let Some(s) = e.downcast_ref::<&str>() {
                    s.to_string()
                } else if let Some(s) = e.downcast_ref::<String>() {
                    s.clone()
                } else {
                    "?".to_string()
                };
                let msg: String = msg.chars().map(|c| if c == '\n' { ' ' } else { c }).collect();
                writeln!(out, "!panic {}", msg).unwrap()
            }
        }
    }
    out.flush().unwrap();
}

/// cursor over the integers of a case
pub struct Cur<'a> {
    pub v: &'a [V],
    pub i: usize,
}

impl<'a> Cur<'a> {
    pub fn new(v: &'a [V]) -> Self {
        Self { v, i: 0 }
    }
    pub fn done(&self) -> bool {
        self.i >= self.v.len()
    }
    /// next value, 0 when exhausted (the models do the same)
    pub fn next(&mut self) -> V {
        let r = self.v.get(self.i).copied().unwrap_or(0);
        self.i += 1;
        r
    }
    pub fn u64(&mut self) -> u64 {
        self.next() as u64
    }
    pub fn usize(&mut self) -> usize {
        self.next() as usize
    }
}
