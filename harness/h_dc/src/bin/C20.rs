//! C20 -- dc streams deliver bytes exactly, or fail promptly with an error.
//!
//! component `dcsim`: real `s2n_quic_dc::stream::testing::{Client, Server}` request/response
//! exchanges inside the bach discrete-event simulation (virtual time only) over a faulty network
//! (seeded drop / duplicate / extra-delay decisions per datagram, optional black hole = the peer
//! vanishes, optional `drop_state` = the peer no longer knows the path secret).
//! Everything random is derived from the case; a case is deterministic.
//!
//! Case layout (all integers; missing ones read as 0):
//!   0 seed            1 scenario (0 normal, 1 peer vanishes, 2 unknown path secret)
//!   2 client mtu      3 server mtu
//!   4 request size    5 response size
//!   6 drop permille client->server   7 drop permille server->client
//!   8 duplicate permille             9 delay (reorder) permille
//!  10 max extra delay (us)          11 client read buffer size   12 server read buffer size
//!  13 client write chunk            14 server write chunk
//!  15 client mode bits: 1 = shutdown() after the last write (else the writer is dropped),
//!                       2 = read concurrently with writing (else read after the write half is done)
//!                       4 = pause between chunks (client),
//!                       8 = the last chunk is written together with the end of stream
//!                           (Writer::write_all_from_fin; counts as shutdown ok)
//!  16 server mode bits: 1 = shutdown() after the last write, 2 = respond while reading (echo style:
//!                       response written concurrently), 4 = pause between chunks, 8 = as for the client
//!  17 vanish time (us, scenario 1) -- from then on every datagram is lost in both directions
//!  18 pause (us) used by the mode bits 4
//!
//!  19 reader stop: bit 0 = the server stops reading after half of the request and drops its read half,
//!                   bit 1 = the client does the same with the response
//!
//! Output: [stalled, idle_timeout_us, ref_time_us (vanish / measured stream opened after the secret
//!          was dropped; -1 none), slack_us, end_time_us, connect_err,
//!          then per direction (0 = client->server, 1 = server->client) 18 integers:
//!          intended, written, write_done (shutdown ok), write_err, write_err_time, write_pending, write_worst_wait,
//!          read, correct, first_bad, eof, read_err, read_err_time, read_pending, read_worst_wait, reader_stopped,
//!          write_started, read_started],
//!          ghost_streams, ghost_bytes (streams the server accepted beyond the one opened, and the bytes they yielded)
//! `*_worst_wait` = max over the blocking operations of that half of (completion - max(start, ref_time)), in us.
use h_common::{Cur, V};
use std::{
    io,
    sync::{
        atomic::{AtomicBool, Ordering},
        Arc, Mutex,
    },
    time::Duration,
};

use bach::{
    environment::net::{
        ip::{Packet, Segments},
        monitor::List as Monitors,
        pcap,
        queue::{Allocator, Dispatch, PacketQueue},
    },
    ext::*,
    group::Group,
    queue::vec_deque,
    sync::channel::Sender,
    time::Instant,
};
use s2n_quic_dc::stream::testing::{Client, Server};
use tokio::io::{AsyncReadExt, AsyncWriteExt};

// ------------------------------------------------------------------------------------------
// deterministic pseudo random numbers (splitmix64)
// ------------------------------------------------------------------------------------------

#[derive(Clone)]
struct Rng(u64);

impl Rng {
    fn next(&mut self) -> u64 {
        self.0 = self.0.wrapping_add(0x9E37_79B9_7F4A_7C15);
        let mut z = self.0;
        z = (z ^ (z >> 30)).wrapping_mul(0xBF58_476D_1CE4_E5B9);
        z = (z ^ (z >> 27)).wrapping_mul(0x94D0_49BB_1331_11EB);
        z ^ (z >> 31)
    }
    fn permille(&mut self, p: u64) -> bool {
        p > 0 && self.next() % 1000 < p
    }
}

/// position-keyed payload: byte at absolute `offset` of direction `dir`
#[inline]
fn payload_byte(seed: u64, dir: u64, offset: u64) -> u8 {
    let mut z = seed ^ (dir.wrapping_mul(0xA24B_AED4_963E_E407)) ^ (offset >> 3).wrapping_mul(0x9FB2_1C65_1E98_DF25);
    z = (z ^ (z >> 30)).wrapping_mul(0xBF58_476D_1CE4_E5B9);
    z = (z ^ (z >> 27)).wrapping_mul(0x94D0_49BB_1331_11EB);
    z ^= z >> 31;
    (z >> ((offset & 7) * 8)) as u8
}

fn fill(seed: u64, dir: u64, offset: u64, buf: &mut [u8]) {
    for (i, b) in buf.iter_mut().enumerate() {
        *b = payload_byte(seed, dir, offset + i as u64);
    }
}

// ------------------------------------------------------------------------------------------
// the faulty network
// ------------------------------------------------------------------------------------------

const NET_LATENCY: Duration = Duration::from_micros(500);

struct Faults {
    rng: Rng,
    drop_c2s: u64,
    drop_s2c: u64,
    dup: u64,
    delay: u64,
    max_extra_us: u64,
    /// datagrams sent at or after this instant (since start) are lost
    blackhole_at: Option<Duration>,
    server_port: u16,
    /// no faults before the measured stream is opened (scenario 2 prelude)
    enabled: bool,
    stats: [u64; 4], // passed, dropped, duplicated, delayed
}

impl Faults {
    /// extra delays of the copies to deliver (empty = dropped)
    fn decide(&mut self, packet: &Packet) -> Vec<Duration> {
        if !self.enabled {
            self.stats[0] += 1;
            return vec![Duration::ZERO];
        }
        let now = Instant::now().elapsed_since_start();
        if let Some(t) = self.blackhole_at {
            if now >= t {
                self.stats[1] += 1;
                return vec![];
            }
        }
        let to_server = packet.destination().port() == self.server_port;
        let p = if to_server { self.drop_c2s } else { self.drop_s2c };
        if self.rng.permille(p) {
            self.stats[1] += 1;
            return vec![];
        }
        let mut copies = 1;
        if self.rng.permille(self.dup) {
            copies = 2;
            self.stats[2] += 1;
        }
        let mut out = Vec::with_capacity(copies);
        for _ in 0..copies {
            if self.rng.permille(self.delay) {
                self.stats[3] += 1;
                let us = 1 + self.rng.next() % self.max_extra_us.max(1);
                out.push(Duration::from_micros(us));
            } else {
                out.push(Duration::ZERO);
            }
        }
        self.stats[0] += 1;
        out
    }
}

struct FaultyNet {
    faults: Arc<Mutex<Faults>>,
}

impl Allocator for FaultyNet {
    fn for_udp(
        &mut self,
        _group: &Group,
        addr: bach::net::SocketAddr,
        dispatch: &Dispatch,
        _monitors: &Monitors,
        _pcaps: &mut pcap::Registry,
    ) -> PacketQueue {
        let (tx_sender, mut tx_receiver) = vec_deque::Queue::builder()
            .with_capacity(Some(4096))
            .with_overflow(vec_deque::Overflow::PreferOldest)
            .build()
            .sojourn()
            .span(format!("udp://{addr}/tx"))
            .mutex()
            .channel();
        let _: &Sender<Segments> = &tx_sender;

        let (rx_sender, rx_receiver) = vec_deque::Queue::builder()
            .with_capacity(Some(4096))
            .with_overflow(vec_deque::Overflow::PreferOldest)
            .build()
            .sojourn()
            .span(format!("udp://{addr}/rx"))
            .mutex()
            .channel();

        let faults = self.faults.clone();
        let dispatch = dispatch.clone();
        async move {
            while let Ok(segments) = tx_receiver.recv().await {
                for packet in segments {
                    let copies = faults.lock().unwrap().decide(&packet);
                    for extra in copies {
                        let dispatch = dispatch.clone();
                        let packet = packet.clone();
                        async move {
                            bach::time::sleep(NET_LATENCY + extra).await;
                            dispatch.send(packet).await;
                        }
                        .spawn_named("net/flight");
                    }
                }
            }
            let _ = tx_receiver.close();
        }
        .spawn_named(format_args!("udp://{addr}/net/local"));

        PacketQueue {
            local_sender: tx_sender,
            local_receiver: rx_receiver,
            remote_sender: rx_sender,
        }
    }
}

// ------------------------------------------------------------------------------------------
// observations
// ------------------------------------------------------------------------------------------

#[derive(Clone, Copy, Default, Debug)]
struct DirOut {
    intended: u64,
    written: u64,
    write_done: bool,
    write_err: i64,
    write_err_time: i64,
    write_pending: bool,
    write_worst_wait: i64,
    read: u64,
    correct: bool,
    first_bad: i64,
    eof: bool,
    read_err: i64,
    read_err_time: i64,
    read_pending: bool,
    read_worst_wait: i64,
    reader_stopped: bool,
    write_started: bool,
    read_started: bool,
}

#[derive(Debug)]
struct Out {
    dirs: [DirOut; 2],
    ref_time: i64,
    connect_err: i64,
    /// streams the server accepted beyond the one the client opened (a duplicated first datagram
    /// makes the acceptor hand out a second stream; replay protection must keep it empty)
    ghost_streams: u64,
    ghost_bytes: u64,
}

impl Default for Out {
    fn default() -> Self {
        let d = DirOut { correct: true, first_bad: -1, ..Default::default() };
        Out { dirs: [d, d], ref_time: -1, connect_err: 0, ghost_streams: 0, ghost_bytes: 0 }
    }
}

fn err_code(e: &io::Error) -> i64 {
    use io::ErrorKind::*;
    match e.kind() {
        TimedOut => 1,
        PermissionDenied => 2,
        ConnectionRefused => 3,
        ConnectionReset => 4,
        ConnectionAborted => 5,
        BrokenPipe => 6,
        UnexpectedEof => 7,
        InvalidData => 8,
        InvalidInput => 9,
        AddrNotAvailable => 10,
        WriteZero => 12,
        _ => 11,
    }
}

fn now_us() -> i64 {
    Instant::now().elapsed_since_start().as_micros() as i64
}

/// virtual time after which a still pending operation is called a hang (20 x the idle timeout)
const HANG_LIMIT: Duration = Duration::from_secs(600);

/// runs one blocking operation under the hang limit; returns None if it is still pending then.
/// `wait` accumulates max(completion - max(start, ref_time))
async fn op<F: core::future::Future>(f: F, out: &Arc<Mutex<Out>>, wait: &mut i64) -> Option<F::Output> {
    let start = now_us();
    let r = bach::time::timeout(HANG_LIMIT, f).await.ok();
    let end = now_us();
    let rt = out.lock().unwrap().ref_time;
    let from = if rt >= 0 { start.max(rt) } else { start };
    *wait = (*wait).max(end - from);
    r
}

#[derive(Clone, Copy)]
struct Side {
    seed: u64,
    dir: u64,
    total: u64,
    chunk: usize,
    shutdown: bool,
    fin_write: bool,
    pause: Duration,
}

/// the dc writer's "payload and end of stream in one call" API
trait FinWrite {
    async fn write_fin(&mut self, data: &[u8]) -> io::Result<usize>;
}

impl<Sub: s2n_quic_dc::event::Subscriber> FinWrite for s2n_quic_dc::stream::send::application::Writer<Sub> {
    async fn write_fin(&mut self, data: &[u8]) -> io::Result<usize> {
        let mut d = data;
        self.write_all_from_fin(&mut d).await
    }
}

/// writes `total` position-keyed bytes of direction `dir` in `chunk` sized writes
async fn write_half<W: tokio::io::AsyncWrite + Unpin + FinWrite>(mut w: W, s: Side, out: Arc<Mutex<Out>>) {
    let d = s.dir as usize;
    {
        let mut o = out.lock().unwrap();
        o.dirs[d].intended = s.total;
        o.dirs[d].write_pending = true;
        o.dirs[d].write_started = true;
    }
    let mut wait = 0i64;
    // Ok(true) = finished, Ok(false) = an operation is still pending at the hang limit
    let res: io::Result<bool> = async {
        let mut off = 0u64;
        let mut buf = vec![0u8; s.chunk.max(1)];
        while off < s.total {
            let n = (s.total - off).min(buf.len() as u64) as usize;
            fill(s.seed, s.dir, off, &mut buf[..n]);
            if s.fin_write && off + n as u64 == s.total {
                match op(w.write_fin(&buf[..n]), &out, &mut wait).await {
                    None => return Ok(false),
                    Some(Ok(_)) => {
                        // Ok means the whole buffer was taken (the returned count is not used: it
                        // under-reports when the call had to wait for flow-control credit)
                        let mut o = out.lock().unwrap();
                        o.dirs[d].written += n as u64;
                        o.dirs[d].write_done = true;
                    }
                    Some(Err(e)) => return Err(e),
                }
                return Ok(true);
            }
            let mut done = 0;
            while done < n {
                match op(w.write(&buf[done..n]), &out, &mut wait).await {
                    None => return Ok(false),
                    Some(Ok(0)) => return Err(io::Error::new(io::ErrorKind::WriteZero, "write zero")),
                    Some(Ok(k)) => {
                        done += k;
                        out.lock().unwrap().dirs[d].written += k as u64;
                    }
                    Some(Err(e)) => return Err(e),
                }
            }
            off += n as u64;
            if !s.pause.is_zero() {
                bach::time::sleep(s.pause).await;
            }
        }
        if s.shutdown {
            match op(w.shutdown(), &out, &mut wait).await {
                None => return Ok(false),
                Some(r) => r?,
            }
            out.lock().unwrap().dirs[d].write_done = true;
        }
        Ok(true)
    }
    .await;
    drop(w);
    let mut o = out.lock().unwrap();
    o.dirs[d].write_worst_wait = wait;
    match res {
        Ok(true) => o.dirs[d].write_pending = false,
        Ok(false) => {}
        Err(e) => {
            o.dirs[d].write_pending = false;
            o.dirs[d].write_err = err_code(&e);
            o.dirs[d].write_err_time = now_us();
        }
    }
}

/// reads direction `dir` until EOF or error (or until `stop_at` bytes, then drops the read half),
/// checking every byte against its position
async fn read_half<R: tokio::io::AsyncRead + Unpin>(
    mut r: R,
    seed: u64,
    dir: u64,
    bufsize: usize,
    stop_at: Option<u64>,
    out: Arc<Mutex<Out>>,
) {
    let d = dir as usize;
    {
        let mut o = out.lock().unwrap();
        o.dirs[d].read_pending = true;
        o.dirs[d].read_started = true;
    }
    let mut wait = 0i64;
    let res: io::Result<bool> = async {
        let mut buf = vec![0u8; bufsize.max(1)];
        let mut off = 0u64;
        loop {
            if let Some(stop) = stop_at {
                if off >= stop {
                    out.lock().unwrap().dirs[d].reader_stopped = true;
                    return Ok(true);
                }
            }
            let n = match op(r.read(&mut buf), &out, &mut wait).await {
                None => return Ok(false),
                Some(r) => r?,
            };
            if n == 0 {
                out.lock().unwrap().dirs[d].eof = true;
                return Ok(true);
            }
            let mut o = out.lock().unwrap();
            for (i, b) in buf[..n].iter().enumerate() {
                if *b != payload_byte(seed, dir, off + i as u64) && o.dirs[d].correct {
                    o.dirs[d].correct = false;
                    o.dirs[d].first_bad = (off + i as u64) as i64;
                }
            }
            off += n as u64;
            o.dirs[d].read = off;
        }
    }
    .await;
    drop(r);
    let mut o = out.lock().unwrap();
    o.dirs[d].read_worst_wait = wait;
    match res {
        Ok(true) => o.dirs[d].read_pending = false,
        Ok(false) => {}
        Err(e) => {
            o.dirs[d].read_pending = false;
            o.dirs[d].read_err = err_code(&e);
            o.dirs[d].read_err_time = now_us();
        }
    }
}

#[derive(Clone, Copy, Debug)]
struct Cfg {
    seed: u64,
    scenario: u64,
    client_mtu: u16,
    server_mtu: u16,
    req: u64,
    resp: u64,
    drop_c2s: u64,
    drop_s2c: u64,
    dup: u64,
    delay: u64,
    max_extra_us: u64,
    client_read: usize,
    server_read: usize,
    client_chunk: usize,
    server_chunk: usize,
    client_mode: u64,
    server_mode: u64,
    vanish_us: u64,
    pause_us: u64,
    reader_stop: u64,
}

impl Cfg {
    fn parse(input: &[V]) -> Self {
        let mut c = Cur::new(input);
        let mtu = |v: u64| -> u16 { v.clamp(1250, 32768) as u16 };
        Cfg {
            seed: c.u64(),
            scenario: c.u64() % 3,
            client_mtu: mtu(c.u64()),
            server_mtu: mtu(c.u64()),
            req: c.u64().min(1 << 24),
            resp: c.u64().min(1 << 24),
            drop_c2s: c.u64().min(900),
            drop_s2c: c.u64().min(900),
            dup: c.u64().min(1000),
            delay: c.u64().min(1000),
            max_extra_us: c.u64().min(1_000_000),
            client_read: (c.u64().clamp(1, 1 << 20)) as usize,
            server_read: (c.u64().clamp(1, 1 << 20)) as usize,
            client_chunk: (c.u64().clamp(1, 1 << 20)) as usize,
            server_chunk: (c.u64().clamp(1, 1 << 20)) as usize,
            client_mode: c.u64(),
            server_mode: c.u64(),
            vanish_us: c.u64().min(60_000_000),
            pause_us: c.u64().min(5_000_000),
            reader_stop: c.u64(),
        }
    }
}

const SERVER_PORT: u16 = 443;

fn run_sim(cfg: Cfg, out: Arc<Mutex<Out>>) -> (u64, [u64; 4]) {
    let faults = Arc::new(Mutex::new(Faults {
        rng: Rng(cfg.seed ^ 0x5EED_C20),
        drop_c2s: cfg.drop_c2s,
        drop_s2c: cfg.drop_s2c,
        dup: cfg.dup,
        delay: cfg.delay,
        max_extra_us: cfg.max_extra_us,
        blackhole_at: if cfg.scenario == 1 { Some(Duration::from_micros(cfg.vanish_us)) } else { None },
        server_port: SERVER_PORT,
        enabled: cfg.scenario != 2,
        stats: [0; 4],
    }));
    if cfg.scenario == 1 {
        out.lock().unwrap().ref_time = cfg.vanish_us as i64;
    }
    // scenario 2: set once the server has accepted the throw-away stream and dropped its state
    let secret_dropped = Arc::new(AtomicBool::new(false));

    let mut rt = bach::environment::default::Runtime::new()
        .with_seed(cfg.seed)
        .with_net_queues(Some(Box::new(FaultyNet { faults: faults.clone() })));

    let pause_us = cfg.pause_us;
    let pause = move |bits: u64| if bits & 4 != 0 { Duration::from_micros(pause_us) } else { Duration::ZERO };

    rt.run(|| {
        // ---------------- client ----------------
        {
            let out = out.clone();
            let faults = faults.clone();
            let secret_dropped = secret_dropped.clone();
            async move {
                let client = Client::builder().mtu(cfg.client_mtu).build();
                if cfg.scenario == 2 {
                    // a throw-away stream (no faults yet) makes the server accept and then drop its state
                    match client.connect_sim(("server", SERVER_PORT)).await {
                        Ok(stream) => {
                            drop(stream);
                            let mut spins = 0;
                            while !secret_dropped.load(Ordering::SeqCst) && spins < 10_000 {
                                bach::time::sleep(Duration::from_millis(1)).await;
                                spins += 1;
                            }
                        }
                        Err(e) => {
                            out.lock().unwrap().connect_err = err_code(&e);
                            return;
                        }
                    }
                    if !secret_dropped.load(Ordering::SeqCst) {
                        out.lock().unwrap().connect_err = 13;
                        return;
                    }
                    faults.lock().unwrap().enabled = true;
                    out.lock().unwrap().ref_time = now_us();
                }
                let stream = match client.connect_sim(("server", SERVER_PORT)).await {
                    Ok(s) => s,
                    Err(e) => {
                        out.lock().unwrap().connect_err = err_code(&e);
                        return;
                    }
                };
                let (recv, send) = stream.into_split();
                let w = write_half(
                    send,
                    Side {
                        seed: cfg.seed,
                        dir: 0,
                        total: cfg.req,
                        chunk: cfg.client_chunk,
                        shutdown: cfg.client_mode & 1 != 0,
                        fin_write: cfg.client_mode & 8 != 0,
                        pause: pause(cfg.client_mode),
                    },
                    out.clone(),
                );
                let stop = if cfg.reader_stop & 2 != 0 { Some(cfg.resp / 2) } else { None };
                let r = read_half(recv, cfg.seed, 1, cfg.client_read, stop, out.clone());
                if cfg.client_mode & 2 != 0 {
                    tokio::join!(w, r);
                } else {
                    w.await;
                    r.await;
                }
                drop(client);
            }
            .group("client")
            .primary()
            .spawn();
        }

        // ---------------- server ----------------
        {
            let out = out.clone();
            async move {
                let server = Server::udp().port(SERVER_PORT).mtu(cfg.server_mtu).build();
                let mut count = 0u32;
                while let Ok((stream, _addr)) = server.accept().await {
                    count += 1;
                    if cfg.scenario == 2 {
                        // simulate a restart: the server no longer knows the path secret
                        server.map().drop_state();
                        secret_dropped.store(true, Ordering::SeqCst);
                        if count == 1 {
                            async move {
                                let mut stream = stream;
                                let mut sink = vec![];
                                let _ = stream.read_to_end(&mut sink).await;
                            }
                            .spawn();
                            continue;
                        }
                    }
                    let expected = if cfg.scenario == 2 { 2 } else { 1 };
                    if count > expected {
                        let out = out.clone();
                        out.lock().unwrap().ghost_streams += 1;
                        async move {
                            let mut stream = stream;
                            let mut buf = vec![0u8; 4096];
                            loop {
                                match bach::time::timeout(HANG_LIMIT, stream.read(&mut buf)).await {
                                    Ok(Ok(n)) if n > 0 => out.lock().unwrap().ghost_bytes += n as u64,
                                    _ => break,
                                }
                            }
                        }
                        .spawn();
                        continue;
                    }
                    let out = out.clone();
                    async move {
                        let (recv, send) = stream.into_split();
                        let stop = if cfg.reader_stop & 1 != 0 { Some(cfg.req / 2) } else { None };
                        let r = read_half(recv, cfg.seed, 0, cfg.server_read, stop, out.clone());
                        let w = write_half(
                            send,
                            Side {
                                seed: cfg.seed,
                                dir: 1,
                                total: cfg.resp,
                                chunk: cfg.server_chunk,
                                shutdown: cfg.server_mode & 1 != 0,
                                fin_write: cfg.server_mode & 8 != 0,
                                pause: pause(cfg.server_mode),
                            },
                            out.clone(),
                        );
                        if cfg.server_mode & 2 != 0 {
                            tokio::join!(r, w);
                        } else {
                            r.await;
                            w.await;
                        }
                    }
                    .primary()
                    .spawn();
                }
            }
            .group("server")
            .spawn();
        }
    });
    let end = rt.elapsed().as_micros() as u64;
    let stats = faults.lock().unwrap().stats;
    (end, stats)
}

fn idle_timeout_us() -> i64 {
    s2n_quic_core::dc::testing::TEST_APPLICATION_PARAMS
        .max_idle_timeout()
        .map(|d| d.as_micros() as i64)
        .unwrap_or(-1)
}

/// scheduling slack granted on top of the idle timeout: a datagram sent just before the peer
/// vanished is still delivered up to latency + max extra delay later (and counts as peer activity);
/// timers have millisecond granularity
const SCHED_SLACK_US: i64 = 10_000;

fn dcsim(input: &[V]) -> Vec<V> {
    let cfg = Cfg::parse(input);
    let out = Arc::new(Mutex::new(Out::default()));
    let o2 = out.clone();
    let res = std::panic::catch_unwind(std::panic::AssertUnwindSafe(move || run_sim(cfg, o2)));
    let (stalled, end) = match &res {
        Ok((end, _)) => (0, *end as i64),
        Err(e) => {
            let msg = if let Some(s) = e.downcast_ref::<String>() {
                s.clone()
            } else if let Some(s) = e.downcast_ref::<&str>() {
                s.to_string()
            } else {
                String::new()
            };
            if msg.contains("Runtime stalled") {
                (1, -1)
            } else {
                std::panic::resume_unwind(Box::new(msg));
            }
        }
    };
    let o = out.lock().unwrap_or_else(|p| p.into_inner());
    let slack = (NET_LATENCY.as_micros() as i64) + cfg.max_extra_us as i64 + SCHED_SLACK_US;
    let mut v: Vec<V> = vec![stalled, idle_timeout_us() as V, o.ref_time as V, slack as V, end as V, o.connect_err as V];
    for d in o.dirs.iter() {
        v.extend_from_slice(&[
            d.intended as V,
            d.written as V,
            d.write_done as V,
            d.write_err as V,
            d.write_err_time as V,
            d.write_pending as V,
            d.write_worst_wait as V,
            d.read as V,
            d.correct as V,
            d.first_bad as V,
            d.eof as V,
            d.read_err as V,
            d.read_err_time as V,
            d.read_pending as V,
            d.read_worst_wait as V,
            d.reader_stopped as V,
            d.write_started as V,
            d.read_started as V,
        ]);
    }
    v.push(o.ghost_streams as V);
    v.push(o.ghost_bytes as V);
    if std::env::var("C20_STATS").is_ok() {
        if let Ok((_, st)) = res {
            eprintln!("net stats pass={} drop={} dup={} delay={}", st[0], st[1], st[2], st[3]);
        }
    }
    v
}


// ------------------------------------------------------------------------------------------
// component `dcrecv`: the sans-IO receiver `stream::recv::state::State` alone, fed with stream
// packets built by the real encoder and sealed with real keys (as the C18 harness does)
// ------------------------------------------------------------------------------------------
//
// case: [seed, total_len (<= 12000), then ops of 3 integers (kind, a, b)]
//   kind 0  stream-space packet  pn = a mod 48, offset = b mod (total+1), len = up to 1100 (from a),
//           carries the final size when it reaches the end of the stream
//   kind 1  the same range as a retransmission (recovery space, pn = a mod 48)
//   kind 2  replay the (a mod n)-th packet built so far, byte for byte
//   kind 3  the worker transmits an ACK (on_transmit); the control packet is decoded and checked
//   kind 4  the application reads up to (a mod 4000) + 1 bytes
// output: [ops executed,
//          then per packet op (kinds 0..2): expected_duplicate (2 = the stream had already received everything:
//          no demand), code (0 accepted, 1 Duplicate, 2 other error)
//          as pairs, then -1,
//          read, correct, dup_changed_state, acks_subset, acked_count, max_data_monotone, eof, total]
mod recv_driver {
    use super::{payload_byte, Cur, V};
    use s2n_codec::{DecoderBufferMut, EncoderBuffer};
    use s2n_quic_core::{
        buffer::{self, reader::storage::Chunk, Reassembler},
        endpoint,
        frame::FrameMut,
        inet::{ExplicitCongestionNotification, SocketAddress},
        time::clock::testing as clock,
        varint::VarInt,
    };
    use s2n_quic_dc::{
        allocator::{Allocator, Segment},
        credentials::{Credentials, Id},
        crypto::awslc,
        event,
        packet::{control, stream},
        path::secret::schedule,
        stream::{recv, shared::AcceptState, TransportFeatures},
    };
    use std::collections::BTreeSet;

    struct Rd<'a> {
        offset: VarInt,
        payload: &'a [u8],
        cursor: usize,
        final_offset: Option<VarInt>,
    }
    impl buffer::reader::Storage for Rd<'_> {
        type Error = core::convert::Infallible;
        fn buffered_len(&self) -> usize {
            self.payload.len() - self.cursor
        }
        fn read_chunk(&mut self, watermark: usize) -> Result<Chunk<'_>, Self::Error> {
            let remaining = &self.payload[self.cursor..];
            let len = remaining.len().min(watermark);
            self.cursor += len;
            Ok((&remaining[..len]).into())
        }
        fn partial_copy_into<Dest>(&mut self, dest: &mut Dest) -> Result<Chunk<'_>, Self::Error>
        where
            Dest: buffer::writer::Storage + ?Sized,
        {
            self.read_chunk(dest.remaining_capacity())
        }
    }
    impl buffer::Reader for Rd<'_> {
        fn current_offset(&self) -> VarInt {
            self.offset + self.cursor
        }
        fn final_offset(&self) -> Option<VarInt> {
            self.final_offset
        }
    }

    #[derive(Debug)]
    struct Seg(usize);
    impl Segment for Seg {
        fn leak(&mut self) {}
    }
    /// collects the control packets the receiver wants to send
    #[derive(Default)]
    struct Outbox {
        bufs: Vec<Vec<u8>>,
        sent: Vec<Vec<u8>>,
        ecn: ExplicitCongestionNotification,
        addr: SocketAddress,
    }
    impl Allocator for Outbox {
        type Segment = Seg;
        type Retransmission = Seg;
        fn alloc(&mut self) -> Option<Seg> {
            self.bufs.push(vec![]);
            Some(Seg(self.bufs.len() - 1))
        }
        fn get<'a>(&'a self, segment: &'a Seg) -> &'a Vec<u8> {
            &self.bufs[segment.0]
        }
        fn get_mut<'a>(&'a mut self, segment: &'a Seg) -> &'a mut Vec<u8> {
            &mut self.bufs[segment.0]
        }
        fn push(&mut self, segment: Seg) {
            let b = self.bufs[segment.0].clone();
            self.sent.push(b);
        }
        fn push_with_retransmission(&mut self, segment: Seg) -> Seg {
            let b = self.bufs[segment.0].clone();
            self.sent.push(b);
            segment
        }
        fn retransmit(&mut self, segment: Seg) -> Seg {
            segment
        }
        fn retransmit_copy(&mut self, retransmission: &Seg) -> Option<Seg> {
            let b = self.bufs[retransmission.0].clone();
            self.bufs.push(b);
            Some(Seg(self.bufs.len() - 1))
        }
        fn can_push(&self) -> bool {
            true
        }
        fn is_empty(&self) -> bool {
            self.sent.is_empty()
        }
        fn segment_len(&self) -> Option<u16> {
            None
        }
        fn free(&mut self, _segment: Seg) {}
        fn free_retransmission(&mut self, _segment: Seg) {}
        fn ecn(&self) -> ExplicitCongestionNotification {
            self.ecn
        }
        fn set_ecn(&mut self, ecn: ExplicitCongestionNotification) {
            self.ecn = ecn;
        }
        fn remote_address(&self) -> SocketAddress {
            self.addr
        }
        fn set_remote_address(&mut self, addr: SocketAddress) {
            self.addr = addr;
        }
        fn set_remote_port(&mut self, port: u16) {
            self.addr.set_port(port);
        }
        fn force_clear(&mut self) {
            self.sent.clear();
        }
    }

    pub fn dcrecv(input: &[V]) -> Vec<V> {
        let mut c = Cur::new(input);
        let seed = c.u64();
        let total = c.u64().min(12000);
        let key_id = VarInt::from_u8(3);
        let v = s2n_quic_dc::SUPPORTED_VERSIONS[0];
        let mut export = [7u8; 32];
        export[..8].copy_from_slice(&seed.to_be_bytes());
        let cs = schedule::Ciphersuite::AES_GCM_128_SHA256;
        let client = schedule::Secret::new(cs, v, endpoint::Type::Client, &export);
        let server = schedule::Secret::new(cs, v, endpoint::Type::Server, &export);
        let (app_seal, _, _, _): (awslc::seal::Application, _, _, _) = client.application_pair(key_id, schedule::Initiator::Local);
        let (_, _, app_open, _): (_, _, awslc::open::Application, _) = server.application_pair(key_id, schedule::Initiator::Remote);
        let (ctl_seal, _) = client.control_pair(key_id, schedule::Initiator::Local);
        let (srv_ctl_seal, ctl_open) = server.control_pair(key_id, schedule::Initiator::Remote);
        let (_, cli_ctl_open) = client.control_pair(key_id, schedule::Initiator::Local);
        let creds = Credentials { id: Id::from([9u8; 16]), key_id };
        let stream_id = stream::Id::unreliable_unidirectional(VarInt::from_u8(1)).unwrap().reliable().bidirectional();

        let clk = clock::Clock::default();
        let params = s2n_quic_core::dc::testing::TEST_APPLICATION_PARAMS;
        let mut state = recv::state::State::new(stream_id, &params, TransportFeatures::UDP, &clk);
        let mut reasm = Reassembler::default();
        let publisher = event::testing::Publisher::no_snapshot();
        let mut outbox = Outbox::default();

        let data: Vec<u8> = (0..total).map(|o| payload_byte(seed, 0, o)).collect();
        let mut built: Vec<(u8, u64, Vec<u8>)> = vec![]; // space, pn, wire image
        let mut accepted: [BTreeSet<u64>; 2] = [BTreeSet::new(), BTreeSet::new()];
        let mut out: Vec<V> = vec![0];
        let mut pairs: Vec<V> = vec![];
        let (mut read, mut correct, mut dup_changed, mut acks_subset, mut acked_count, mut md_mono) = (0u64, true, false, true, 0u64, true);
        let mut last_md = 0u64;
        let mut ops = 0;

        while !c.done() && ops < 400 {
            ops += 1;
            let (kind, a, b) = (c.u64() % 5, c.u64(), c.u64());
            match kind {
                0 | 1 | 2 => {
                    let wire: (u8, u64, Vec<u8>) = if kind == 2 {
                        if built.is_empty() {
                            continue;
                        }
                        built[(a as usize) % built.len()].clone()
                    } else if let Some(prev) = {
                        // a sender uses a packet number once: asking again for a number already built
                        // replays that packet
                        let pn = if kind == 1 { a % 48 + 1 } else { a % 48 };
                        built.iter().find(|w| w.0 == kind as u8 && w.1 == pn).cloned()
                    } {
                        prev
                    } else {
                        // recovery-space numbers are 1..=48: a retransmission must be numbered above its original (0)
                        let pn = if kind == 1 { a % 48 + 1 } else { a % 48 };
                        let off = if total == 0 { 0 } else { b % (total + 1) };
                        let len = ((a / 48) % 1100 + 1).min(total - off);
                        let fin = off + len == total;
                        let mut buf = vec![0u8; 1500];
                        let mut rd = Rd {
                            offset: VarInt::new(off).unwrap(),
                            payload: &data[off as usize..(off + len) as usize],
                            cursor: 0,
                            final_offset: fin.then(|| VarInt::new(total).unwrap()),
                        };
                        // a retransmission is the original packet (some other original number) moved to the recovery space
                        let orig_pn = if kind == 1 { VarInt::ZERO } else { VarInt::new(pn).unwrap() };
                        let n = stream::encoder::encode(
                            EncoderBuffer::new(&mut buf),
                            None,
                            stream_id,
                            orig_pn,
                            VarInt::ZERO,
                            VarInt::ZERO,
                            &mut &[][..],
                            VarInt::ZERO,
                            &(),
                            &mut rd,
                            &app_seal,
                            &creds,
                        );
                        buf.truncate(n);
                        if kind == 1 {
                            stream::decoder::Packet::retransmit(
                                DecoderBufferMut::new(&mut buf),
                                stream::PacketSpace::Recovery,
                                VarInt::new(pn).unwrap(),
                                &ctl_seal,
                            )
                            .expect("retransmit");
                        }
                        let w = (kind as u8, pn, buf);
                        built.push(w.clone());
                        w
                    };
                    let (space, pn, mut bytes) = wire;
                    let expected_dup = accepted[space as usize].contains(&pn);
                    // once everything has arrived the receiver ignores packets wholesale (Ok): no demand then
                    let receiving = matches!(format!("{:?}", state.state()).as_str(), "Recv" | "SizeKnown");
                    let before = (reasm.len(), reasm.total_received_len(), state.should_transmit());
                    let res = {
                        let (mut p, _) = stream::decoder::Packet::decode(DecoderBufferMut::new(&mut bytes), (), 16).expect("decode");
                        state.on_stream_packet(
                            &app_open,
                            &ctl_open,
                            &creds,
                            &mut p,
                            ExplicitCongestionNotification::default(),
                            AcceptState::Accepted,
                            &clk,
                            &mut reasm,
                            &publisher,
                        )
                    };
                    let code = match &res {
                        Ok(()) => 0,
                        Err(e) if matches!(e.kind(), recv::ErrorKind::Duplicate) => 1,
                        Err(e) => {
                            if std::env::var("C20_DEBUG").is_ok() {
                                eprintln!("op {ops}: {e:?}");
                            }
                            2
                        }
                    };
                    if code == 0 {
                        accepted[space as usize].insert(pn);
                    }
                    // a replayed packet must leave the receiver as it was: same buffered bytes, no new ACK wanted
                    // (a replay legitimately makes the receiver want to re-send its ACK)
                    let _ = before.2;
                    if expected_dup && (before.0 != reasm.len() || before.1 != reasm.total_received_len()) {
                        dup_changed = true;
                    }
                    pairs.push(if receiving { expected_dup as V } else { 2 });
                    pairs.push(code);
                }
                3 => {
                    outbox.sent.clear();
                    state.on_transmit(&srv_ctl_seal, &creds, stream_id, None, &mut outbox, &clk, &publisher);
                    outbox.bufs.clear();
                    for mut pkt in outbox.sent.drain(..) {
                        let Ok((mut p, _)) = control::decoder::Packet::decode(DecoderBufferMut::new(&mut pkt), (), 16) else {
                            acks_subset = false;
                            continue;
                        };
                        if s2n_quic_dc::crypto::open::Control::verify(&cli_ctl_open, p.header(), p.auth_tag()).is_err() {
                            acks_subset = false;
                        }
                        for frame in p.control_frames_mut() {
                            match frame {
                                Ok(FrameMut::Ack(ack)) => {
                                    let space = if ack.ecn_counts.is_some() { 0 } else { 1 };
                                    for r in ack.ack_ranges() {
                                        for pn in r.start().as_u64()..=r.end().as_u64() {
                                            acked_count += 1;
                                            if !accepted[space].contains(&pn) {
                                                acks_subset = false;
                                            }
                                        }
                                    }
                                }
                                Ok(FrameMut::MaxData(md)) => {
                                    let m = md.maximum_data.as_u64();
                                    if m < last_md {
                                        md_mono = false;
                                    }
                                    last_md = m;
                                }
                                Ok(_) => {}
                                Err(_) => acks_subset = false,
                            }
                        }
                    }
                }
                _ => {
                    let want = (a % 4000 + 1) as usize;
                    let mut chunk: Vec<u8> = Vec::with_capacity(want);
                    {
                        let mut lim = buffer::writer::storage::Storage::with_write_limit(&mut chunk, want);
                        state.on_read_buffer(&mut reasm, &mut lim, AcceptState::Accepted, &clk);
                    }
                    for (i, byte) in chunk.iter().enumerate() {
                        if *byte != payload_byte(seed, 0, read + i as u64) {
                            correct = false;
                        }
                    }
                    read += chunk.len() as u64;
                }
            }
        }
        out[0] = ops as V;
        out.extend(pairs);
        out.push(-1);
        let eof = buffer::Reader::final_offset(&reasm).is_some() && buffer::Reader::is_consumed(&reasm);
        out.extend_from_slice(&[
            read as V,
            correct as V,
            dup_changed as V,
            acks_subset as V,
            acked_count as V,
            md_mono as V,
            eof as V,
            total as V,
        ]);
        out
    }
}

// ------------------------------------------------------------------------------------------
// main: like h_common::main_with, but the cases of one invocation are spread over threads
// (each simulation is single-threaded and owns its bach runtime); output order = input order
// ------------------------------------------------------------------------------------------

fn run_line(f: h_common::Component, line: &str) -> String {
    let input = h_common::parse_line(line);
    match std::panic::catch_unwind(move || f(&input)) {
        Ok(vals) => h_common::fmt_line(&vals),
        Err(e) => {
            let msg = if let Some(s) = e.downcast_ref::<&str>() {
                s.to_string()
            } else if let Some(s) = e.downcast_ref::<String>() {
                s.clone()
            } else {
                "?".to_string()
            };
            let msg: String = msg.chars().map(|c| if c == '\n' { ' ' } else { c }).take(300).collect();
            format!("!panic {msg}")
        }
    }
}

/// one case per child process: a simulation that panics half way (or spins) cannot disturb the
/// cases after it, and a wall-clock limit turns a run-away simulation into `!timeout`
fn run_in_child(exe: &std::path::Path, comp: &str, line: &str) -> String {
    use std::io::{Read, Write};
    use std::process::{Command, Stdio};
    let limit = std::env::var("C20_CASE_SECS").ok().and_then(|v| v.parse().ok()).unwrap_or(900u64);
    let mut child = match Command::new(exe)
        .arg(comp)
        .arg("--single")
        .stdin(Stdio::piped())
        .stdout(Stdio::piped())
        .stderr(Stdio::null())
        .spawn()
    {
        Ok(c) => c,
        Err(e) => return format!("!panic cannot spawn child: {e}"),
    };
    if let Some(mut si) = child.stdin.take() {
        let _ = writeln!(si, "{line}");
    }
    let start = std::time::Instant::now();
    loop {
        match child.try_wait() {
            Ok(Some(_)) => break,
            Ok(None) => {
                if start.elapsed().as_secs() >= limit {
                    let _ = child.kill();
                    let _ = child.wait();
                    return "!timeout".to_string();
                }
                std::thread::sleep(std::time::Duration::from_millis(3));
            }
            Err(e) => return format!("!panic wait: {e}"),
        }
    }
    let mut out = String::new();
    if let Some(mut so) = child.stdout.take() {
        let _ = so.read_to_string(&mut out);
    }
    let out = out.lines().next().unwrap_or("").to_string();
    if out.is_empty() {
        "!panic child produced no output".to_string()
    } else {
        out
    }
}

fn main() {
    // the testing helpers install a global tracing subscriber at DEBUG level when debug assertions
    // are on; it would print to stdout
    std::env::set_var("S2N_LOG", "off");
    if std::env::var("C20_DEBUG").is_ok() {
        std::panic::set_hook(Box::new(|info| {
            eprintln!("panic: {info}\n{}", std::backtrace::Backtrace::force_capture())
        }));
    } else {
        std::panic::set_hook(Box::new(|_| {}));
    }
    let comps: &[(&str, h_common::Component)] = &[("dcsim", dcsim), ("dcrecv", recv_driver::dcrecv)];
    let name = std::env::args().nth(1).expect("component name");
    let f = comps
        .iter()
        .find(|(n, _)| *n == name)
        .unwrap_or_else(|| {
            eprintln!("unknown component {name}");
            std::process::exit(2)
        })
        .1;
    let single = std::env::args().any(|a| a == "--single");
    let lines: Vec<String> = std::io::stdin().lines().map(|l| l.expect("read")).collect();
    if single {
        // a big stack: the simulation nests deeply in debug-assertion builds
        let line = lines.first().cloned().unwrap_or_default();
        let h = std::thread::Builder::new()
            .stack_size(64 << 20)
            .spawn(move || run_line(f, &line))
            .unwrap();
        println!("{}", h.join().unwrap_or_else(|_| "!panic worker died".to_string()));
        // do not wait for anything the simulation may have left behind
        std::process::exit(0);
    }
    let n = lines.len();
    let threads = std::env::var("C20_THREADS").ok().and_then(|v| v.parse().ok()).unwrap_or(8usize).clamp(1, 16).min(n.max(1));
    let exe = std::env::current_exe().expect("current_exe");
    let lines = Arc::new(lines);
    let next = Arc::new(std::sync::atomic::AtomicUsize::new(0));
    let results: Arc<Mutex<Vec<Option<String>>>> = Arc::new(Mutex::new(vec![None; n]));
    let mut hs = vec![];
    for _ in 0..threads {
        let (lines, next, results, exe, name) = (lines.clone(), next.clone(), results.clone(), exe.clone(), name.clone());
        hs.push(std::thread::spawn(move || loop {
            let i = next.fetch_add(1, Ordering::SeqCst);
            if i >= lines.len() {
                break;
            }
            let r = if name == "dcsim" { run_in_child(&exe, &name, &lines[i]) } else { run_line(f, &lines[i]) };
            results.lock().unwrap()[i] = Some(r);
        }));
    }
    for h in hs {
        let _ = h.join();
    }
    use std::io::Write;
    let stdout = std::io::stdout();
    let mut w = std::io::BufWriter::new(stdout.lock());
    for r in results.lock().unwrap().iter() {
        writeln!(w, "{}", r.as_deref().unwrap_or("!panic worker died")).unwrap();
    }
    w.flush().unwrap();
}
