use h_common::{main_with, Cur, V};
use s2n_quic_core::varint::VarInt;
use s2n_quic_dc::{
    credentials::{Credentials, Id},
    path::secret::{receiver, verif_hooks},
};

/// C19 receiver: input = key ids (each < 2^62); output per id: code, minimum_unseen_key_id
/// code 0 = Ok, 1 = AlreadyExists, 2 = Unknown
fn dcr(input: &[V]) -> Vec<V> {
    let st = receiver::State::new();
    let mut out = vec![];
    for v in input {
        let creds = Credentials {
            id: Id::from([7u8; 16]),
            key_id: VarInt::new(*v as u64).expect("generator keeps ids below 2^62"),
        };
        let pre = st.pre_authentication(&creds);
        let r = st.post_authentication(&creds);
        let code = |r: Result<(), receiver::Error>| match r {
            Ok(()) => 0,
            Err(receiver::Error::AlreadyExists) => 1,
            Err(receiver::Error::Unknown) => 2,
        };
        out.push(code(pre));
        out.push(code(r));
        out.push(st.minimum_unseen_key_id().as_u64() as V);
    }
    out
}

/// C19 sender: ops `0` = next_key_id, `1 m` = update_for_stale_key(m)
/// output: issued id per next (a panic of next_key_id is printed as -1 and ends the case)
fn dcs(input: &[V]) -> Vec<V> {
    let st = verif_hooks::Sender::new();
    let mut c = Cur::new(input);
    let mut out = vec![];
    while !c.done() {
        match c.next() {
            0 => {
                let r = std::panic::catch_unwind(std::panic::AssertUnwindSafe(|| st.next_key_id()));
                match r {
                    Ok(id) => out.push(id.as_u64() as V),
                    Err(_) => {
                        out.push(-1);
                        break;
                    }
                }
            }
            _ => {
                let m = c.u64();
                st.update_for_stale_key(VarInt::new(m).expect("below 2^62"));
            }
        }
    }
    out
}

/// C19 sender under real threads: input = [threads, per_thread, stale_every, stale_base];
/// output: [number of ids issued, number of distinct ids, 1 if every thread saw increasing ids]
fn dcs_mt(input: &[V]) -> Vec<V> {
    let mut c = Cur::new(input);
    let threads = c.usize().clamp(1, 16);
    let per = c.usize().min(200_000);
    let stale_every = c.usize();
    let stale_base = c.u64();
    let st = std::sync::Arc::new(verif_hooks::Sender::new());
    let mut hs = vec![];
    for t in 0..threads {
        let st = st.clone();
        hs.push(std::thread::spawn(move || {
            let mut ids = Vec::with_capacity(per);
            for i in 0..per {
                if stale_every > 0 && i % stale_every == t % stale_every.max(1) {
                    let m = stale_base.wrapping_mul(i as u64 + 1) % (1 << 40);
                    st.update_for_stale_key(VarInt::new(m).unwrap());
                }
                ids.push(st.next_key_id().as_u64());
            }
            ids
        }));
    }
    let mut all = vec![];
    let mut mono = 1;
    for h in hs {
        let ids = h.join().unwrap();
        if ids.windows(2).any(|w| w[0] >= w[1]) {
            mono = 0;
        }
        all.extend(ids);
    }
    let n = all.len();
    all.sort_unstable();
    all.dedup();
    vec![n as V, all.len() as V, mono]
}

/// C19 receiver under real threads: input = [threads, ids, stride, jitter_seed];
/// every thread offers every id of 0, stride, 2*stride, ... (ids values) to one shared receiver,
/// each thread in its own slightly shuffled order; output:
/// [offers, ids accepted more than once, ids accepted exactly once, largest accept count]
fn dcr_mt(input: &[V]) -> Vec<V> {
    let mut c = Cur::new(input);
    let threads = c.usize().clamp(1, 16);
    let n = c.usize().min(200_000);
    let stride = c.u64().max(1);
    let seed = c.u64();
    let st = std::sync::Arc::new(receiver::State::new());
    let counts: std::sync::Arc<Vec<std::sync::atomic::AtomicU32>> =
        std::sync::Arc::new((0..n).map(|_| std::sync::atomic::AtomicU32::new(0)).collect());
    let barrier = std::sync::Arc::new(std::sync::Barrier::new(threads));
    let mut hs = vec![];
    for t in 0..threads {
        let st = st.clone();
        let counts = counts.clone();
        let barrier = barrier.clone();
        hs.push(std::thread::spawn(move || {
            let mut x = seed.wrapping_add(t as u64).wrapping_mul(0x9e3779b97f4a7c15) | 1;
            barrier.wait();
            let mut i = 0usize;
            while i < n {
                // process a small block in a thread-specific order
                x ^= x << 13;
                x ^= x >> 7;
                x ^= x << 17;
                let blk = 1 + (x % 4) as usize;
                let end = (i + blk).min(n);
                let rev = (x >> 8) & 1 == 1;
                for k in 0..(end - i) {
                    let j = if rev { end - 1 - k } else { i + k };
                    let creds = Credentials {
                        id: Id::from([7u8; 16]),
                        key_id: VarInt::new(j as u64 * stride).unwrap(),
                    };
                    if st.post_authentication(&creds).is_ok() {
                        counts[j].fetch_add(1, std::sync::atomic::Ordering::Relaxed);
                    }
                }
                i = end;
            }
        }));
    }
    for h in hs {
        h.join().unwrap();
    }
    let mut multi = 0;
    let mut once = 0;
    let mut mx = 0;
    for c in counts.iter() {
        let v = c.load(std::sync::atomic::Ordering::Relaxed);
        if v > 1 {
            multi += 1;
        }
        if v == 1 {
            once += 1;
        }
        mx = mx.max(v);
    }
    vec![(n * threads) as V, multi, once, mx as V]
}

/// C19 Map-level dedup: two real Maps share one path secret; the sending Map issues one-shot
/// sealers (key ids 0, 1, 2, ... in order), the receiving Map opens the packets in the order of
/// the case (a delivery schedule of key ids, with replays), through
/// `Map::open_once` -> `open::Once::decrypt_in_place` -> `Dedup::check` -> `State::check_dedup`
/// -> `receiver::State::post_authentication`.
/// output per delivery: 0 opened, 1 ReplayDefinitelyDetected, 2 ReplayPotentiallyDetected (unknown), 3 other
fn dedup(input: &[V]) -> Vec<V> {
    use s2n_codec::{DecoderBufferMut, EncoderBuffer};
    use s2n_quic_dc::{
        crypto::open::{Application as _, Error},
        event,
        packet::datagram,
        path::secret::{stateless_reset::Signer, Map},
    };
    use std::net::SocketAddr;
    let new_map = |signer: &[u8]| {
        Map::new(
            Signer::new(signer),
            64,
            false,
            s2n_quic_core::time::NoopClock,
            event::tracing::Subscriber::default(),
        )
    };
    let a = new_map(b"signer of the sending map");
    let b = new_map(b"signer of the receiving map");
    let a_addr: SocketAddr = "10.0.0.9:4433".parse().unwrap();
    let b_addr: SocketAddr = "10.0.0.1:4433".parse().unwrap();
    let id = verif_hooks::insert_pair(&a, a_addr, &b, b_addr);
    // the schedule; ids beyond the cap are clamped (the generator stays below it)
    let schedule: Vec<u64> = input.iter().map(|v| (*v).clamp(0, 4095) as u64).collect();
    let issued = schedule.iter().copied().max().map_or(0, |m| m + 1);
    // issue the one-shot keys in order and seal one packet for every key id that gets delivered
    let mut packets: Vec<Option<(Credentials, Vec<u8>)>> = Vec::with_capacity(issued as usize);
    for k in 0..issued {
        let (sealer, creds, _params) = a.seal_once_id(id).expect("entry present");
        assert_eq!(creds.key_id.as_u64(), k, "key ids are issued sequentially");
        if !schedule.contains(&k) {
            packets.push(None);
            continue;
        }
        let payload = [k as u8, (k >> 8) as u8, 0xd5];
        let mut buf = vec![0u8; 128];
        let len = datagram::encoder::encode(
            EncoderBuffer::new(&mut buf),
            0,
            None,
            None,
            VarInt::ZERO,
            &mut &[][..],
            &(),
            VarInt::from_u8(payload.len() as u8),
            &mut &payload[..],
            &sealer,
            &creds,
        );
        buf.truncate(len);
        packets.push(Some((creds, buf)));
    }
    let mut out = vec![];
    let mut control_out = vec![];
    for k in schedule {
        let (creds, bytes) = packets[k as usize].as_ref().expect("sealed above");
        let mut bytes = bytes.clone();
        let code = match b.open_once(creds, None, &mut control_out) {
            None => 2, // pre_authentication refused (reserved maximum only; not reachable here)
            Some(opener) => {
                let (mut p, _) = datagram::decoder::Packet::decode(DecoderBufferMut::new(&mut bytes), (), 16)
                    .expect("packet sealed by the harness");
                let header = p.header().to_vec();
                let tag = p.auth_tag().to_vec();
                let kp = p.tag().key_phase();
                let nonce = p.crypto_nonce();
                match opener.decrypt_in_place(kp, nonce, &header, p.payload_mut(), &tag) {
                    Ok(()) => {
                        assert_eq!(p.payload(), &[k as u8, (k >> 8) as u8, 0xd5][..]);
                        0
                    }
                    Err(Error::ReplayDefinitelyDetected) => 1,
                    Err(Error::ReplayPotentiallyDetected { .. }) => 2,
                    Err(_) => 3,
                }
            }
        };
        out.push(code);
    }
    out
}

fn main() {
    main_with(&[("dcr", dcr), ("dcs", dcs), ("dcs_mt", dcs_mt), ("dcr_mt", dcr_mt), ("dedup", dedup)]);
}
