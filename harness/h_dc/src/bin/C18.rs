//! C18 -- dc packets round-trip and only authenticated packets are acted upon.
//! Components: `sc` (secret-control packets), `pkt` (stream / datagram / control packets),
//! `map` (path secret map handlers). Protocol: see coq/model/DcPacket.v, coq/model/DcMap.v.
use h_common::{main_with, Cur, V};
use s2n_codec::{DecoderBufferMut, EncoderBuffer};
use s2n_quic_core::{endpoint, varint::VarInt};
use s2n_quic_dc::{
    credentials::Id,
    packet::{secret_control as sc, WireVersion},
    path::secret::{schedule, stateless_reset},
};

fn znat(v: V) -> u128 {
    if v < 0 {
        0
    } else {
        v as u128
    }
}
fn zbyte(v: V) -> u8 {
    (znat(v) % 256) as u8
}
fn zvar(v: V) -> VarInt {
    let m = VarInt::MAX.as_u64() as u128;
    VarInt::new(znat(v).min(m) as u64).unwrap()
}

fn suite(v: V) -> schedule::Ciphersuite {
    if znat(v) % 2 == 0 {
        schedule::Ciphersuite::AES_GCM_128_SHA256
    } else {
        schedule::Ciphersuite::AES_GCM_256_SHA384
    }
}

fn export_secret(seed: V, salt: u8) -> schedule::ExportSecret {
    let mut s = [salt; 32];
    s[..16].copy_from_slice(&znat(seed).to_be_bytes());
    s[16] = salt;
    s
}

/// the two ends of one path secret: what the client seals the server opens
fn secrets(cs: schedule::Ciphersuite, seed: V, salt: u8) -> (schedule::Secret, schedule::Secret) {
    let v = s2n_quic_dc::SUPPORTED_VERSIONS[0];
    let e = export_secret(seed, salt);
    (
        schedule::Secret::new(cs, v, endpoint::Type::Client, &e),
        schedule::Secret::new(cs, v, endpoint::Type::Server, &e),
    )
}

// ------------------------------------------------------------------------------------------------
// sc
// ------------------------------------------------------------------------------------------------

#[derive(Clone, Copy)]
struct ScFields {
    kind: u8,
    cred: [u8; 16],
    queue: Option<VarInt>,
    key: VarInt,
}

enum ScKeys {
    Reset {
        right: stateless_reset::Signer,
        wrong: stateless_reset::Signer,
    },
    Hmac {
        sealer: s2n_quic_dc::crypto::awslc::seal::control::Secret,
        right: s2n_quic_dc::crypto::awslc::open::control::Secret,
        wrong: s2n_quic_dc::crypto::awslc::open::control::Secret,
    },
}

fn sc_encode(f: &ScFields, keys: &ScKeys, buf: &mut [u8]) -> usize {
    let id = Id::from(f.cred);
    let enc = EncoderBuffer::new(buf);
    match (f.kind, keys) {
        (0, ScKeys::Reset { right, .. }) => sc::UnknownPathSecret {
            credential_id: id,
            wire_version: WireVersion::ZERO,
            queue_id: f.queue,
        }
        .encode(enc, &right.sign(&id)),
        (1, ScKeys::Hmac { sealer, .. }) => sc::StaleKey {
            credential_id: id,
            wire_version: WireVersion::ZERO,
            queue_id: f.queue,
            min_key_id: f.key,
        }
        .encode(enc, sealer),
        (_, ScKeys::Hmac { sealer, .. }) => sc::ReplayDetected {
            credential_id: id,
            wire_version: WireVersion::ZERO,
            queue_id: f.queue,
            rejected_key_id: f.key,
        }
        .encode(enc, sealer),
        _ => unreachable!(),
    }
}

/// decode with `secret_control::Packet::decode`; Some((fields, header_len, rest_len, auth_right, auth_wrong))
fn sc_decode(bytes: &mut [u8], keys: &ScKeys) -> Option<(ScFields, usize, usize, bool, bool)> {
    let total = bytes.len();
    let buf = DecoderBufferMut::new(bytes);
    let (p, rest) = sc::Packet::decode(buf).ok()?;
    let rest_len = rest.len();
    let hl = total - rest_len - sc::TAG_LEN;
    let cred = **p.credential_id();
    let queue = p.queue_id();
    Some(match (&p, keys) {
        (sc::Packet::UnknownPathSecret(p), ScKeys::Reset { right, wrong }) => {
            // the map authenticates against the stateless-reset tag of the entry the packet
            // names (state.rs handle_unknown_path_secret_packet): sign(credential id in the packet)
            let right = right.sign(p.credential_id());
            let wrong = wrong.sign(p.credential_id());
            let a = p.authenticate(&right);
            let b = p.authenticate(&wrong);
            if let Some(v) = a {
                assert_eq!((v.credential_id, v.queue_id), (Id::from(cred), queue));
            }
            (
                ScFields { kind: 0, cred, queue, key: VarInt::ZERO },
                hl,
                rest_len,
                a.is_some(),
                b.is_some(),
            )
        }
        (sc::Packet::UnknownPathSecret(_), _) => (
            ScFields { kind: 0, cred, queue, key: VarInt::ZERO },
            hl,
            rest_len,
            false,
            false,
        ),
        (sc::Packet::StaleKey(p), ScKeys::Hmac { right, wrong, .. }) => {
            // the value is only handed out by authenticate; get it from a never-failing verifier
            let v = *p.authenticate(&AcceptAll).unwrap();
            (
                ScFields { kind: 1, cred, queue, key: v.min_key_id },
                hl,
                rest_len,
                p.authenticate(right).is_some(),
                p.authenticate(wrong).is_some(),
            )
        }
        (sc::Packet::StaleKey(p), _) => {
            let v = *p.authenticate(&AcceptAll).unwrap();
            (ScFields { kind: 1, cred, queue, key: v.min_key_id }, hl, rest_len, false, false)
        }
        (sc::Packet::ReplayDetected(p), ScKeys::Hmac { right, wrong, .. }) => {
            let v = *p.authenticate(&AcceptAll).unwrap();
            (
                ScFields { kind: 2, cred, queue, key: v.rejected_key_id },
                hl,
                rest_len,
                p.authenticate(right).is_some(),
                p.authenticate(wrong).is_some(),
            )
        }
        (sc::Packet::ReplayDetected(p), _) => {
            let v = *p.authenticate(&AcceptAll).unwrap();
            (ScFields { kind: 2, cred, queue, key: v.rejected_key_id }, hl, rest_len, false, false)
        }
    })
}

/// used only to read the decoded value of a packet (the API returns it from `authenticate`)
struct AcceptAll;
impl s2n_quic_dc::crypto::open::Control for AcceptAll {
    fn tag_len(&self) -> usize {
        16
    }
    fn verify(&self, _h: &[u8], _t: &[u8]) -> s2n_quic_dc::crypto::open::Result {
        Ok(())
    }
}
impl s2n_quic_dc::crypto::open::control::Secret for AcceptAll {}

fn push_fields(out: &mut Vec<V>, f: &ScFields, hl: usize, rest: usize) {
    out.push(f.kind as V);
    out.push(f.queue.is_some() as V);
    out.push(f.queue.map_or(0, |q| q.as_u64()) as V);
    out.push(f.key.as_u64() as V);
    out.push(hl as V);
    out.push(rest as V);
    out.extend(f.cred.iter().map(|b| *b as V));
}

fn sc_keys(kind: u8, cs: schedule::Ciphersuite, seed: V) -> ScKeys {
    if kind == 0 {
        ScKeys::Reset {
            right: stateless_reset::Signer::new(&export_secret(seed, 1)),
            wrong: stateless_reset::Signer::new(&export_secret(seed, 2)),
        }
    } else {
        let (client, server) = secrets(cs, seed, 1);
        let (_, other) = secrets(cs, seed, 2);
        ScKeys::Hmac {
            sealer: client.control_sealer(),
            right: server.control_opener(),
            wrong: other.control_opener(),
        }
    }
}

fn sc(input: &[V]) -> Vec<V> {
    let mut c = Cur::new(input);
    let mut out = vec![];
    if c.done() {
        return out;
    }
    let op = c.next();
    if op == 0 {
        let kind = (znat(c.next()) % 3) as u8;
        let cs = suite(c.next());
        let seed = c.next();
        let hq = c.next() != 0;
        let q = zvar(c.next());
        let key = zvar(c.next());
        let mut cred = [0u8; 16];
        for b in cred.iter_mut() {
            *b = zbyte(c.next());
        }
        let f = ScFields {
            kind,
            cred,
            queue: hq.then_some(q),
            key: if kind == 0 { VarInt::ZERO } else { key },
        };
        let keys = sc_keys(kind, cs, seed);
        let mut buf = [0u8; sc::MAX_PACKET_SIZE];
        let len = sc_encode(&f, &keys, &mut buf);
        let pkt = buf[..len].to_vec();
        let hl = len - sc::TAG_LEN;
        out.push(hl as V);
        out.extend(pkt[..hl].iter().map(|b| *b as V));
        // round trip
        let mut work = pkt.clone();
        match sc_decode(&mut work, &keys) {
            Some((g, hl2, rest, a, b)) => {
                out.push(1);
                push_fields(&mut out, &g, hl2, rest);
                out.push(a as V);
                out.push(b as V);
            }
            None => {
                out.push(0);
                return out;
            }
        }
        // every single-byte mutation at every position
        let mut accepted = 0;
        let mut first: V = -1;
        for pos in 0..len {
            for x in 1..=255u8 {
                work.copy_from_slice(&pkt);
                work[pos] ^= x;
                if let Some((_, _, _, a, _)) = sc_decode(&mut work, &keys) {
                    if a {
                        accepted += 1;
                        if first < 0 {
                            first = pos as V;
                        }
                    }
                }
            }
        }
        out.push(accepted);
        out.push(first);
        // the multi-byte mutation of the case
        let nm = znat(c.next()).min(8) as usize;
        let mut m = pkt.clone();
        for _ in 0..nm {
            let p = znat(c.next());
            let x = zbyte(c.next());
            let n = m.len() as u128;
            if n > 0 {
                m[(p % n) as usize] ^= x;
            }
        }
        let cut = znat(c.next()).min(len as u128) as usize;
        m.truncate(len - cut);
        match sc_decode(&mut m, &keys) {
            Some((g, hl2, rest, a, _)) => {
                out.push(1);
                push_fields(&mut out, &g, hl2, rest);
                out.push(a as V);
            }
            None => {
                out.push(0);
                out.push(0);
            }
        }
    } else {
        let cs = suite(c.next());
        let mut bytes: Vec<u8> = vec![];
        while !c.done() {
            bytes.push(zbyte(c.next()));
        }
        // a fixed key that signed nothing
        let kind = bytes.first().map_or(1, |t| if t & !4 == 0x60 { 0 } else { 1 });
        let keys = sc_keys(kind, cs, 0x5eed);
        match sc_decode(&mut bytes, &keys) {
            Some((g, hl, rest, a, b)) => {
                out.push(1);
                push_fields(&mut out, &g, hl, rest);
                out.push((a || b) as V);
            }
            None => out.push(0),
        }
    }
    out
}

// ------------------------------------------------------------------------------------------------
// pkt: stream / datagram / control packets
// ------------------------------------------------------------------------------------------------
use s2n_quic_core::buffer::{self, reader::storage::Chunk};
use s2n_quic_dc::{
    credentials::Credentials,
    crypto::{awslc, open as copen},
    packet::{self, control, datagram, stream},
};

struct FinReader<'a> {
    offset: VarInt,
    payload: &'a [u8],
    cursor: usize,
    final_offset: Option<VarInt>,
}

impl buffer::reader::Storage for FinReader<'_> {
    type Error = core::convert::Infallible;
    fn buffered_len(&self) -> usize {
        self.payload.len() - self.cursor
    }
    fn read_chunk(&mut self, watermark: usize) -> Result<Chunk<'_>, Self::Error> {
        let remaining = &self.payload[self.cursor..];
        let len = remaining.len().min(watermark);
        self.cursor += len;
        Ok((&remaining[..len]).into())
    }
    fn partial_copy_into<Dest>(&mut self, dest: &mut Dest) -> Result<Chunk<'_>, Self::Error>
    where
        Dest: buffer::writer::Storage + ?Sized,
    {
        self.read_chunk(dest.remaining_capacity())
    }
}

impl buffer::Reader for FinReader<'_> {
    fn current_offset(&self) -> VarInt {
        self.offset + self.cursor
    }
    fn final_offset(&self) -> Option<VarInt> {
        self.final_offset
    }
}

struct PkCase {
    kind: u8,
    flags: u8,
    creds: Credentials,
    q: VarInt,
    sqid: VarInt,
    pn: VarInt,
    nec: VarInt,
    off: VarInt,
    fin: VarInt,
    port: u16,
    app: Vec<u8>,
    cd: Vec<u8>,
    payload: Vec<u8>,
}

fn ramp(a: u8, k: u8, n: usize) -> Vec<u8> {
    (0..n).map(|i| ((a as usize + k as usize * i) % 256) as u8).collect()
}

struct PkKeys {
    app_seal: awslc::seal::Application,
    app_open: awslc::open::Application,
    app_open_wrong: awslc::open::Application,
    ctl_seal: awslc::seal::control::Stream,
    ctl_open: awslc::open::control::Stream,
    ctl_open_wrong: awslc::open::control::Stream,
    uni_seal: awslc::seal::Application,
    uni_open: awslc::open::Application,
    uni_open_wrong: awslc::open::Application,
}

fn pk_keys(cs: schedule::Ciphersuite, seed: V, key_id: VarInt) -> PkKeys {
    let (client, server) = secrets(cs, seed, 1);
    let (_, other) = secrets(cs, seed, 2);
    let (app_seal, _, _, _) = client.application_pair(key_id, schedule::Initiator::Local);
    let (_, _, app_open, _) = server.application_pair(key_id, schedule::Initiator::Remote);
    let (_, _, app_open_wrong, _) = other.application_pair(key_id, schedule::Initiator::Remote);
    let (ctl_seal, _) = client.control_pair(key_id, schedule::Initiator::Local);
    let (_, ctl_open) = server.control_pair(key_id, schedule::Initiator::Remote);
    let (_, ctl_open_wrong) = other.control_pair(key_id, schedule::Initiator::Remote);
    PkKeys {
        app_seal,
        app_open,
        app_open_wrong,
        ctl_seal,
        ctl_open,
        ctl_open_wrong,
        uni_seal: client.application_sealer(key_id),
        uni_open: server.application_opener(key_id),
        uni_open_wrong: other.application_opener(key_id),
    }
}

fn stream_id(c: &PkCase) -> stream::Id {
    let mut id = stream::Id::unreliable_unidirectional(c.q).expect("queue id below 2^60");
    if c.flags & 2 != 0 {
        id = id.reliable();
    }
    if c.flags & 4 != 0 {
        id = id.bidirectional();
    }
    id
}

fn pk_encode(c: &PkCase, k: &PkKeys, buf: &mut [u8]) -> usize {
    let enc = EncoderBuffer::new(buf);
    let app_len = VarInt::new(c.app.len() as u64).unwrap();
    let cd_len = VarInt::new(c.cd.len() as u64).unwrap();
    let sq = (c.flags & 1 != 0).then_some(c.sqid);
    match c.kind {
        0 => {
            let probe = c.flags & 16 != 0;
            let payload: &[u8] = if probe { &[] } else { &c.payload };
            let mut reader = FinReader {
                offset: c.off,
                payload,
                cursor: 0,
                final_offset: (c.flags & 8 != 0).then_some(c.fin),
            };
            if probe {
                stream::encoder::probe(
                    enc, sq, stream_id(c), c.pn, c.nec, app_len, &mut &c.app[..], cd_len, &&c.cd[..],
                    &mut reader, &k.ctl_seal, &c.creds,
                )
            } else {
                stream::encoder::encode(
                    enc, sq, stream_id(c), c.pn, c.nec, app_len, &mut &c.app[..], cd_len, &&c.cd[..],
                    &mut reader, &k.app_seal, &c.creds,
                )
            }
        }
        1 => {
            let ack = c.flags & 64 != 0;
            let connected = c.flags & 32 != 0 || ack;
            let cd: &[u8] = if ack { &c.cd } else { &[] };
            datagram::encoder::encode(
                enc,
                c.port,
                connected.then_some(c.pn),
                ack.then_some(c.nec),
                app_len,
                &mut &c.app[..],
                &cd,
                VarInt::new(c.payload.len() as u64).unwrap(),
                &mut &c.payload[..],
                &k.uni_seal,
                &c.creds,
            )
        }
        _ => control::encoder::encode(
            enc,
            sq,
            (c.flags & 128 != 0).then(|| stream_id(c)),
            c.pn,
            app_len,
            &mut &c.app[..],
            cd_len,
            &&c.cd[..],
            &k.ctl_seal,
            &c.creds,
        ),
    }
}

fn optf(out: &mut Vec<V>, o: Option<VarInt>) {
    out.push(o.is_some() as V);
    out.push(o.map_or(0, |v| v.as_u64()) as V);
}

/// decoded parts of one packet after authentication was attempted
struct PkDecoded {
    fields: Vec<V>,
    app: Vec<u8>,
    cd: Vec<u8>,
    payload: Vec<u8>,
    auth: bool,
}

/// decode `bytes` as the given kind, try to open it with the given keys
fn pk_decode(
    kind: u8,
    bytes: &mut [u8],
    app_open: &awslc::open::Application,
    ctl_open: &awslc::open::control::Stream,
    uni_open: &awslc::open::Application,
) -> Option<PkDecoded> {
    let total = bytes.len();
    match kind {
        0 => {
            let (owned, hl, rest) = {
                let (p, rest) = stream::decoder::Packet::decode(DecoderBufferMut::new(bytes), (), 16).ok()?;
                let hl = p.header().len();
                let rest = rest.len();
                (stream::decoder::Owned::from(p), hl, rest)
            };
            let mut f = vec![u8::from(owned.tag) as V, owned.credentials.key_id.as_u64() as V];
            optf(&mut f, owned.source_queue_id);
            f.push(owned.stream_id.queue_id().as_u64() as V);
            f.push(owned.stream_id.is_reliable as V);
            f.push(owned.stream_id.is_bidirectional as V);
            f.push(owned.original_packet_number.as_u64() as V);
            f.push(owned.packet_number.as_u64() as V);
            f.push(owned.next_expected_control_packet.as_u64() as V);
            f.push(owned.stream_offset.as_u64() as V);
            optf(&mut f, owned.final_offset);
            f.push(hl as V);
            f.push(owned.application_header.len() as V);
            f.push(owned.control_data.len() as V);
            f.push(owned.payload.len() as V);
            f.push(rest as V);
            f.extend(owned.credentials.id.iter().map(|b| *b as V));
            assert_eq!(hl + owned.payload.len() + owned.auth_tag.len() + rest, total);
            let (mut p, _) = stream::decoder::Packet::decode(DecoderBufferMut::new(bytes), (), 16).ok()?;
            let auth = p.decrypt_in_place(app_open, ctl_open).is_ok();
            Some(PkDecoded {
                fields: f,
                app: owned.application_header,
                cd: owned.control_data,
                payload: p.payload().to_vec(),
                auth,
            })
        }
        1 => {
            let (mut p, rest) = datagram::decoder::Packet::decode(DecoderBufferMut::new(bytes), (), 16).ok()?;
            let rest = rest.len();
            let mut f = vec![
                u8::from(p.tag()) as V,
                p.credentials().key_id.as_u64() as V,
                p.source_control_port() as V,
                p.packet_number().as_u64() as V,
            ];
            optf(&mut f, p.next_expected_control_packet());
            f.push(p.header().len() as V);
            f.push(p.application_header().len() as V);
            f.push(p.control_data().len() as V);
            f.push(p.payload().len() as V);
            f.push(rest as V);
            f.extend(p.credentials().id.iter().map(|b| *b as V));
            assert_eq!(p.wire_len() + rest, total);
            let header = p.header().to_vec();
            let tag = p.auth_tag().to_vec();
            let app = p.application_header().to_vec();
            let cd = p.control_data().to_vec();
            let kp = p.tag().key_phase();
            let nonce = p.crypto_nonce();
            let auth = copen::Application::decrypt_in_place(uni_open, kp, nonce, &header, p.payload_mut(), &tag).is_ok();
            Some(PkDecoded { fields: f, app, cd, payload: p.payload().to_vec(), auth })
        }
        _ => {
            let (p, rest) = control::decoder::Packet::decode(DecoderBufferMut::new(bytes), (), 16).ok()?;
            let rest = rest.len();
            let mut f = vec![u8::from(p.tag()) as V, p.credentials().key_id.as_u64() as V];
            match p.stream_id() {
                Some(id) => {
                    f.extend([1, id.queue_id().as_u64() as V, id.is_reliable as V, id.is_bidirectional as V])
                }
                None => f.extend([0, 0, 0, 0]),
            }
            optf(&mut f, p.source_queue_id());
            f.push(p.packet_number().as_u64() as V);
            f.push(p.header().len() as V);
            f.push(p.application_header().len() as V);
            f.push(p.control_data().len() as V);
            f.push(rest as V);
            f.extend(p.credentials().id.iter().map(|b| *b as V));
            assert_eq!(p.total_len() + rest, total);
            let auth = copen::Control::verify(ctl_open, p.header(), p.auth_tag()).is_ok();
            Some(PkDecoded {
                fields: f,
                app: p.application_header().to_vec(),
                cd: p.control_data().to_vec(),
                payload: vec![],
                auth,
            })
        }
    }
}

fn pkt(input: &[V]) -> Vec<V> {
    let mut c = Cur::new(input);
    let mut out = vec![];
    if c.done() {
        return out;
    }
    let op = c.next();
    if op == 0 {
        let kind = (znat(c.next()) % 3) as u8;
        let cs = suite(c.next());
        let seed = c.next();
        let flags = (znat(c.next()) % 256) as u8;
        let key_id = zvar(c.next());
        let mut cred = [0u8; 16];
        for b in cred.iter_mut() {
            *b = zbyte(c.next());
        }
        let q = VarInt::new(znat(c.next()).min((1u128 << 60) - 1) as u64).unwrap();
        let sqid = zvar(c.next());
        let pn = zvar(c.next());
        let nec = zvar(c.next());
        let off = zvar(c.next());
        let fin = zvar(c.next());
        let port = (znat(c.next()) % 65536) as u16;
        let al = znat(c.next()).min(40) as usize;
        let a0 = zbyte(c.next());
        let cl = znat(c.next()).min(40) as usize;
        let c0 = zbyte(c.next());
        let pl = znat(c.next()).min(300) as usize;
        let delta = znat(c.next()).min(1 << 33).max(1) as u64;
        // payload bytes: a ramp seeded by the case
        let pc = PkCase {
            kind,
            flags,
            creds: Credentials { id: Id::from(cred), key_id },
            q,
            sqid,
            pn,
            nec,
            off,
            fin,
            port,
            app: ramp(a0, 7, al),
            cd: ramp(c0, 3, cl),
            payload: ramp(a0 ^ c0, 5, pl),
        };
        let keys = pk_keys(cs, seed, key_id);
        let mut buf = vec![0u8; 2048];
        let len = pk_encode(&pc, &keys, &mut buf);
        let pkt = buf[..len].to_vec();
        // what the decoder calls the header is everything before the payload
        let mut work = pkt.clone();
        let d = match pk_decode(kind, &mut work, &keys.app_open, &keys.ctl_open, &keys.uni_open) {
            Some(d) => d,
            None => {
                out.push(-2);
                return out;
            }
        };
        let hl = d.fields[match kind { 0 => 13, 1 => 6, _ => 9 }] as usize;
        out.push(hl as V);
        out.extend(pkt[..hl.min(len)].iter().map(|b| *b as V));
        out.push(1);
        out.extend(d.fields.iter());
        let exp_payload: &[u8] = if kind == 0 && flags & 16 != 0 {
            &[]
        } else if kind == 2 {
            &[]
        } else {
            &pc.payload
        };
        let exp_cd: &[u8] = if kind == 1 && flags & 64 == 0 { &[] } else { &pc.cd };
        out.push((d.auth && d.payload == exp_payload && d.app == pc.app && d.cd == exp_cd) as V);
        out.push(d.auth as V);
        work.copy_from_slice(&pkt);
        let w = pk_decode(kind, &mut work, &keys.app_open_wrong, &keys.ctl_open_wrong, &keys.uni_open_wrong);
        out.push(w.map_or(0, |w| w.auth as V));
        // every single-byte mutation at every position
        let mut accepted = 0;
        let mut first: V = -1;
        for pos in 0..len {
            for x in 1..=255u8 {
                work.copy_from_slice(&pkt);
                work[pos] ^= x;
                if let Some(m) = pk_decode(kind, &mut work, &keys.app_open, &keys.ctl_open, &keys.uni_open) {
                    if m.auth {
                        accepted += 1;
                        if first < 0 {
                            first = pos as V;
                        }
                    }
                }
            }
        }
        out.push(accepted);
        out.push(first);
        // the multi-byte mutation of the case
        let nm = znat(c.next()).min(8) as usize;
        let mut m = pkt.clone();
        for _ in 0..nm {
            let p = znat(c.next());
            let x = zbyte(c.next());
            let n = m.len() as u128;
            if n > 0 {
                m[(p % n) as usize] ^= x;
            }
        }
        let cut = znat(c.next()).min(len as u128) as usize;
        m.truncate(len - cut);
        let a = pk_decode(kind, &mut m, &keys.app_open, &keys.ctl_open, &keys.uni_open).map_or(false, |d| d.auth);
        out.push(a as V);
        // retransmission of a stream data packet under a new packet number
        let mut rt: [V; 4] = [0; 4];
        let (mut rt_acc, mut rt_first, mut rt_xor): (V, V, V) = (0, -1, 0);
        if kind == 0 && flags & 16 == 0 {
            if let Some(new_pn) = pn.as_u64().checked_add(delta).and_then(|v| VarInt::new(v).ok()) {
                let space = if flags & 64 != 0 { stream::PacketSpace::Recovery } else { stream::PacketSpace::Stream };
                let mut r = pkt.clone();
                let res = stream::decoder::Packet::retransmit(DecoderBufferMut::new(&mut r), space, new_pn, &keys.ctl_seal);
                if res.is_ok() {
                    let mut r2 = r.clone();
                    let rp = r.clone();
                    if let Some(d) = pk_decode(0, &mut r, &keys.app_open, &keys.ctl_open, &keys.uni_open) {
                        let ok = d.auth && d.payload == pc.payload && d.app == pc.app && d.cd == pc.cd;
                        let wrong = pk_decode(0, &mut r2, &keys.app_open, &keys.ctl_open_wrong, &keys.uni_open)
                            .map_or(false, |d| d.auth);
                        rt = [ok as V, d.fields[8], d.fields[7], wrong as V];
                        // every single-byte mutation of the retransmitted packet
                        let mut w2 = rp.clone();
                        for pos in 0..rp.len() {
                            for x in 1..=255u8 {
                                w2.copy_from_slice(&rp);
                                w2[pos] ^= x;
                                if let Some(m) = pk_decode(0, &mut w2, &keys.app_open, &keys.ctl_open, &keys.uni_open) {
                                    if m.auth {
                                        rt_acc += 1;
                                        if rt_first < 0 {
                                            rt_first = pos as V;
                                            rt_xor = x as V;
                                        }
                                    }
                                }
                            }
                        }
                    }
                }
            }
        }
        out.extend(rt);
        out.extend([rt_acc, rt_first, rt_xor]);
    } else {
        let cs = suite(c.next());
        let mut bytes: Vec<u8> = vec![];
        while !c.done() {
            bytes.push(zbyte(c.next()));
        }
        let keys = pk_keys(cs, 0x5eed, VarInt::from_u8(3));
        let kind = {
            use s2n_codec::DecoderParameterizedValueMut;
            match packet::Packet::decode_parameterized_mut(16, DecoderBufferMut::new(&mut bytes)) {
                Err(_) => None,
                Ok((p, _)) => Some(match p {
                    packet::Packet::Stream(_) => 0u8,
                    packet::Packet::Datagram(_) => 1,
                    packet::Packet::Control(_) => 2,
                    packet::Packet::UnknownPathSecret(_) => 3,
                    packet::Packet::StaleKey(_) => 4,
                    packet::Packet::ReplayDetected(_) => 5,
                }),
            }
        };
        match kind {
            None => out.push(0),
            Some(k @ 0..=2) => {
                let d = pk_decode(k, &mut bytes, &keys.app_open, &keys.ctl_open, &keys.uni_open)
                    .expect("the dispatcher decoded it");
                out.push(1);
                out.push(k as V);
                out.extend(d.fields.iter());
                out.push(d.auth as V);
            }
            Some(k) => {
                let sk = sc_keys(if k == 3 { 0 } else { 1 }, cs, 0x5eed);
                let (g, hl, rest, a, b) = sc_decode(&mut bytes, &sk).expect("the dispatcher decoded it");
                assert_eq!(g.kind + 3, match k { 3 => 3, 4 => 4, _ => 5 });
                out.push(1);
                out.push(k as V);
                push_fields(&mut out, &g, hl, rest);
                out.push((a || b) as V);
            }
        }
    }
    out
}

// ------------------------------------------------------------------------------------------------
// map: path secret map handlers
// ------------------------------------------------------------------------------------------------
use s2n_quic_dc::{event, path::secret::Map};
use std::{
    net::SocketAddr,
    sync::{
        atomic::{AtomicU64, Ordering},
        Arc,
    },
};

#[derive(Default)]
struct Counting {
    hs: AtomicU64,
    acc: AtomicU64,
    rej: AtomicU64,
    drop: AtomicU64,
    evicted: AtomicU64,
    read_key_updates: AtomicU64,
}

macro_rules! count {
    ($name:ident, $ev:ident, $field:ident) => {
        fn $name(&self, _meta: &event::api::EndpointMeta, _event: &event::api::$ev) {
            self.$field.fetch_add(1, Ordering::Relaxed);
        }
    };
}

impl event::Subscriber for Counting {
    type ConnectionContext = ();
    fn create_connection_context(
        &self,
        _meta: &event::api::ConnectionMeta,
        _info: &event::api::ConnectionInfo,
    ) -> Self::ConnectionContext {
    }
    fn on_stream_read_key_updated(
        &self,
        _context: &Self::ConnectionContext,
        _meta: &event::api::ConnectionMeta,
        _event: &event::api::StreamReadKeyUpdated,
    ) {
        self.read_key_updates.fetch_add(1, Ordering::Relaxed);
    }
    count!(on_path_secret_map_background_handshake_requested, PathSecretMapBackgroundHandshakeRequested, hs);
    count!(on_path_secret_map_id_entry_evicted, PathSecretMapIdEntryEvicted, evicted);
    count!(on_unknown_path_secret_packet_accepted, UnknownPathSecretPacketAccepted, acc);
    count!(on_unknown_path_secret_packet_rejected, UnknownPathSecretPacketRejected, rej);
    count!(on_unknown_path_secret_packet_dropped, UnknownPathSecretPacketDropped, drop);
    count!(on_stale_key_packet_accepted, StaleKeyPacketAccepted, acc);
    count!(on_stale_key_packet_rejected, StaleKeyPacketRejected, rej);
    count!(on_stale_key_packet_dropped, StaleKeyPacketDropped, drop);
    count!(on_replay_detected_packet_accepted, ReplayDetectedPacketAccepted, acc);
    count!(on_replay_detected_packet_rejected, ReplayDetectedPacketRejected, rej);
    count!(on_replay_detected_packet_dropped, ReplayDetectedPacketDropped, drop);
}

fn new_map<S: event::Subscriber>(signer_secret: &[u8], evict: bool, sub: S) -> Map {
    Map::new(
        stateless_reset::Signer::new(signer_secret),
        64,
        evict,
        s2n_quic_core::time::NoopClock,
        sub,
    )
}

fn map(input: &[V]) -> Vec<V> {
    // entries "younger than 10 s" must really be: repeat a case that was stalled by the machine
    for _ in 0..3 {
        let t0 = std::time::Instant::now();
        let out = map_once(input);
        let aged = input.get(1).copied().unwrap_or(0) != 0;
        if aged || t0.elapsed() < std::time::Duration::from_secs(8) {
            return out;
        }
    }
    map_once(input)
}

fn map_once(input: &[V]) -> Vec<V> {
    use s2n_quic_dc::path::secret::verif_hooks;
    let mut c = Cur::new(input);
    let mut out = vec![];
    let evict = c.next() != 0;
    let aged = c.next() != 0;
    let counts = Arc::new(Counting::default());
    let a = new_map(b"signer of map A", evict, counts.clone());
    let a_addr: SocketAddr = "10.0.0.9:4433".parse().unwrap();
    let peers: [SocketAddr; 2] = ["10.0.0.1:4433".parse().unwrap(), "10.0.0.2:4433".parse().unwrap()];
    let peer_signers: [&[u8]; 2] = [b"signer of peer 0", b"signer of peer 1"];
    let mut ids = vec![];
    let mut sealers = vec![];
    let mut peer_of: Vec<usize> = vec![];
    let peer_maps: Vec<Map> = (0..2)
        .map(|k| new_map(peer_signers[k], false, event::tracing::Subscriber::default()))
        .collect();
    // a handshake with peer k: a fresh secret shared by map A and the peer's map; the peer's end of
    // it is recovered through the public API
    let handshake = |k: usize, ids: &mut Vec<Id>, sealers: &mut Vec<_>, peer_of: &mut Vec<usize>| {
        let id = verif_hooks::insert_pair(&a, a_addr, &peer_maps[k], peers[k]);
        let mut ctl = vec![];
        let (export, cs, _keys, _params) = a
            .secret_for_credentials(
                &Credentials { id, key_id: VarInt::from_u32(1 << 20) },
                None,
                &s2n_quic_dc::stream::TransportFeatures::UDP,
                &mut ctl,
            )
            .expect("entry present");
        let peer_end = schedule::Secret::new(cs, s2n_quic_dc::SUPPORTED_VERSIONS[0], endpoint::Type::Server, &export);
        assert_eq!(*peer_end.id(), id);
        sealers.push(peer_end.control_sealer());
        ids.push(id);
        peer_of.push(k);
    };
    for k in 0..2 {
        handshake(k, &mut ids, &mut sealers, &mut peer_of);
    }
    let unknown = Id::from([0xEE; 16]);
    let other_signer = stateless_reset::Signer::new(b"an unrelated signer");
    if aged {
        std::thread::sleep(std::time::Duration::from_millis(10_050));
    }
    let observe = |out: &mut Vec<V>| {
        out.push(a.contains(&peers[0]) as V);
        out.push(a.contains(&peers[1]) as V);
        out.push(a.secrets_len() as V);
        out.push(counts.hs.load(Ordering::Relaxed) as V);
        out.push(counts.acc.load(Ordering::Relaxed) as V);
        out.push(counts.rej.load(Ordering::Relaxed) as V);
        out.push(counts.drop.load(Ordering::Relaxed) as V);
    };
    while !c.done() {
        let op = c.next();
        let karg = znat(c.next());
        if op == 2 {
            // re-handshake with the same peer address: a second, newer secret for it
            handshake((karg % 2) as usize, &mut ids, &mut sealers, &mut peer_of);
            observe(&mut out);
            continue;
        }
        let k = (karg % ids.len() as u128) as usize;
        if op == 0 {
            match a.seal_once_id(ids[k]) {
                Some((_, creds, _)) => out.push(creds.key_id.as_u64() as V),
                None => out.push(-1),
            }
            observe(&mut out);
            continue;
        }
        let kind = (znat(c.next()) % 3) as u8;
        let mode = (znat(c.next()) % 5) as u8;
        let val = VarInt::new(znat(c.next()).min(1 << 40) as u64).unwrap();
        let via = c.next();
        let named = if mode == 3 { unknown } else { ids[k] };
        let signer_k = stateless_reset::Signer::new(peer_signers[peer_of[k]]);
        let other = (k + 1) % ids.len();
        let mut buf = [0u8; sc::MAX_PACKET_SIZE];
        let len = {
            let enc = EncoderBuffer::new(&mut buf);
            match kind {
                0 => {
                    // authentic tag: the peer's signer over the id the entry is stored under
                    let tag = if mode == 2 { other_signer.sign(&named) } else { signer_k.sign(&ids[k]) };
                    sc::UnknownPathSecret { credential_id: named, wire_version: WireVersion::ZERO, queue_id: None }
                        .encode(enc, &tag)
                }
                1 => sc::StaleKey { credential_id: named, wire_version: WireVersion::ZERO, queue_id: None, min_key_id: val }
                    .encode(enc, if mode == 2 { &sealers[other] } else { &sealers[k] }),
                _ => sc::ReplayDetected {
                    credential_id: named,
                    wire_version: WireVersion::ZERO,
                    queue_id: None,
                    rejected_key_id: val,
                }
                .encode(enc, if mode == 2 { &sealers[other] } else { &sealers[k] }),
            }
        };
        match mode {
            1 => {
                for (i, b) in buf[len - 16..len].iter_mut().enumerate() {
                    *b = 0xA5 ^ (i as u8);
                }
            }
            4 => buf[len - 1] ^= 1,
            _ => {}
        }
        let bytes = &mut buf[..len];
        if via == 0 {
            use s2n_codec::DecoderParameterizedValueMut;
            let (p, _) = packet::Packet::decode_parameterized_mut(16, DecoderBufferMut::new(bytes)).expect("well formed");
            a.handle_unexpected_packet(&p, &peers[peer_of[k]]);
        } else {
            let (p, _) = sc::Packet::decode(DecoderBufferMut::new(bytes)).expect("well formed");
            a.handle_control_packet(&p, &peers[peer_of[k]]);
        }
        observe(&mut out);
    }
    drop(peer_maps);
    out
}

// ------------------------------------------------------------------------------------------------
// keys: the receiver's rotating application opener and forged packets
// ------------------------------------------------------------------------------------------------
fn keys(input: &[V]) -> Vec<V> {
    use s2n_quic_dc::{
        path::secret::verif_hooks,
        stream::{crypto::Crypto, shared, TransportFeatures},
    };
    let mut c = Cur::new(input);
    let mut out = vec![];
    let counts = Arc::new(Counting::default());
    let a = new_map(b"signer of map A", false, event::tracing::Subscriber::default());
    let b = new_map(b"signer of map B", false, event::tracing::Subscriber::default());
    let a_addr: SocketAddr = "10.0.0.9:4433".parse().unwrap();
    let b_addr: SocketAddr = "10.0.0.1:4433".parse().unwrap();
    let _id = verif_hooks::insert_pair(&a, a_addr, &b, b_addr);
    let features = TransportFeatures::UDP;
    // the sending side: locally initiated keys of map A for its peer
    let (local, _params) = a.get_untracked(b_addr).expect("entry present").pair(&features);
    let creds = local.credentials;
    let mut sealer = local.application.sealer;
    // the receiving side: the matching remote keys of map B, held the way a stream holds them
    let mut ctl = vec![];
    let (remote, _params, _app) = b
        .pair_for_credentials(&creds, None, &features, &mut ctl)
        .expect("credentials known to the peer");
    let control = remote.control.map(|c| (c.sealer, c.opener));
    let crypto = Crypto::new(remote.application.sealer, remote.application.opener, control, &b);
    let sub = shared::Subscriber { subscriber: counts.clone(), context: () };
    let clock = s2n_quic_core::time::NoopClock;
    let sid = stream::Id::unreliable_unidirectional(VarInt::from_u8(3)).unwrap();
    let mut pn = 0u64;
    while !c.done() {
        let op = c.next();
        if op != 0 && op != 1 {
            // the peer moves its sealer to the next key generation
            sealer.update(&clock, &sub);
            continue;
        }
        // an authentic packet of the sender's current generation
        let payload = ramp(pn as u8, 3, 24);
        let mut buf = vec![0u8; 512];
        let len = {
            let mut reader = FinReader { offset: VarInt::new(pn * 24).unwrap(), payload: &payload, cursor: 0, final_offset: None };
            stream::encoder::encode(
                EncoderBuffer::new(&mut buf),
                None,
                sid,
                VarInt::new(pn).unwrap(),
                VarInt::ZERO,
                VarInt::ZERO,
                &mut &[][..],
                VarInt::ZERO,
                &(),
                &mut reader,
                &sealer,
                &creds,
            )
        };
        pn += 1;
        buf.truncate(len);
        if op == 1 {
            let pos = (znat(c.next()) % len as u128) as usize;
            let x = (znat(c.next()) % 255) as u8 + 1;
            buf[pos] ^= x;
        }
        let accepted = match stream::decoder::Packet::decode(DecoderBufferMut::new(&mut buf), (), 16) {
            Err(_) => false,
            Ok((mut p, _)) => {
                let ctl_open = crypto.control_opener().expect("udp features have control keys");
                // the in-place path of stream/recv (Crypto::open_with rotates the opener when asked to)
                // ... and, for every other packet, the copying path
                if pn % 2 == 0 {
                    let r = crypto.open_with(|opener| p.decrypt_in_place(opener, ctl_open), &clock, &sub);
                    r.is_ok() && (op == 1 || p.payload() == &payload[..])
                } else {
                    let mut clear = vec![0u8; p.payload().len()];
                    let r = crypto.open_with(
                        |opener| p.decrypt(opener, ctl_open, s2n_quic_dc::crypto::UninitSlice::new(&mut clear[..])),
                        &clock,
                        &sub,
                    );
                    r.is_ok() && (op == 1 || clear == payload)
                }
            }
        };
        out.push(accepted as V);
        out.push(counts.read_key_updates.load(Ordering::Relaxed) as V);
    }
    out
}

fn main() {
    main_with(&[("sc", sc), ("pkt", pkt), ("map", map), ("keys", keys)]);
}
