//! `sm` component (C12 / C03, judged only): the same operations as `ss`, but through the real
//! DefaultStreamManager (stream container lists, interests, RetransmissionContext phase, connection
//! credit hand-out in manager.rs).  The output has the format of `ss` with zeros in the state columns,
//! so the same extracted judgements apply.  All streams share the initial MAX_STREAM_DATA win_0; the
//! `target` of a transmit op is ignored (the manager decides); constraint breaches are appended.
use crate::send_driver::payload_byte;
use h_common::{Cur, V};
use s2n_quic_transport::verif_hooks::{data_sender as ds, streams as hook};

const VMAX: u64 = (1 << 62) - 1;
/// payload capacities stay below u16::MAX + 1: the value `transmit_interval` clamps capacities to, plus one
/// (= DataSender.cap_bound in the Coq model, the hypothesis of C03_packet_within_limits)
pub const CAP_BOUND: u64 = u16::MAX as u64 + 1;

pub fn sm(input: &[V]) -> Vec<V> {
    let mut c = Cur::new(input);
    let salt = c.u64() % 65536;
    let max_data0 = c.u64().min(VMAX);
    let n = (c.u64() % 4 + 1) as usize;
    let _ = c.u64();
    let mut wins = vec![];
    for _ in 0..n {
        wins.push(c.u64().min(VMAX));
    }
    let mut s = hook::Streams::with_flow_limits(false, n as u64, 0, 100, 100, max_data0, wins[0]);
    let mut ids = vec![];
    for _ in 0..n {
        ids.push(s.open(0).expect("open").expect("within the limit"));
    }
    let mut pushed = vec![0u64; n];
    let mut out: Vec<V> = vec![];
    let mut breaches = 0u32;
    while !c.done() {
        let op = c.next();
        match op {
            1 => {
                let k = c.usize() % n;
                let len = (c.u64() % 4096) as usize;
                let data: Vec<u8> = (0..len as u64)
                    .map(|i| payload_byte(salt, k as u64, pushed[k] + i))
                    .collect();
                let r = s.push(ids[k], data);
                if r > 0 {
                    pushed[k] += r as u64;
                }
                out.extend([1, k as V, r as V]);
            }
            2 => {
                let k = c.usize() % n;
                let r = s.finish(ids[k]);
                out.extend([2, k as V, r as V]);
            }
            3 => {
                let k = c.usize() % n;
                let code = c.u64() % 1024;
                let r = if s.reset(ids[k], code) { 0 } else { -1 };
                out.extend([3, k as V, r as V]);
            }
            4 => {
                let k = c.usize() % n;
                let code = c.u64() % 1024;
                s.stop_sending(ids[k], code);
                out.extend([4, k as V]);
            }
            5 => {
                let _t = c.usize();
                let cap = (c.u64() % CAP_BOUND) as usize;
                let cons = ds::constraint_of(c.u64());
                let mode = ds::mode_of(c.u64());
                let pn = s.next_packet_number;
                let (frames, b) = s.transmit_with(cap, cons, mode);
                breaches += b;
                out.extend([5, pn as V, frames.len() as V]);
                for f in &frames {
                    out.extend([f.kind as V, f.stream_id as V, f.value as V, f.code as V, f.fin as V, f.data.len() as V]);
                    out.extend(f.data.iter().map(|b| *b as V));
                }
            }
            6 => {
                let lo = c.u64() % 65536;
                let cnt = c.u64() % 65536;
                s.ack(lo, lo + cnt);
                out.push(6);
            }
            7 => {
                let lo = c.u64() % 65536;
                let cnt = c.u64() % 65536;
                s.loss(lo, lo + cnt);
                out.push(7);
            }
            8 => {
                let k = c.usize() % n;
                let v = c.u64().min(VMAX);
                s.max_stream_data(ids[k], v);
                out.extend([8, k as V]);
            }
            9 => {
                let v = c.u64().min(VMAX);
                s.max_data(v);
                out.push(9);
            }
            _ => break,
        }
        out.extend(std::iter::repeat(0).take(2 + 5 * n));
    }
    out.push(breaches as V);
    out
}
