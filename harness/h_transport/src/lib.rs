// harness drivers live in src/bin/<property>.rs
