//! C02 (partial): sync state machines and idle-timer arithmetic of s2n-quic-transport driven with
//! integer operation sequences (see coq/model/Sync.v, coq/model/IdleTimer.v for the encodings).
use h_common::{main_with, Cur, V};
use s2n_quic_transport::verif_hooks::sync as hook;

const VMAX: u64 = (1 << 62) - 1;
const TMAX: u64 = 1 << 40;
const PMAX: u64 = 1 << 32;

/// argument decoding shared with the models: negative -> 0, capped at `cap`
fn arg(c: &mut Cur, cap: u64) -> u64 {
    let x = c.next();
    if x <= 0 {
        0
    } else if x >= cap as V {
        cap
    } else {
        x as u64
    }
}

fn capacity(c: &mut Cur) -> usize {
    // 0 = no room for a frame, anything else = plenty
    if arg(c, 1) == 0 {
        0
    } else {
        1200
    }
}

fn push_tx(out: &mut Vec<V>, tx: Option<hook::Tx>) {
    match tx {
        Some(t) => {
            out.push(t.frames as V);
            out.push(t.value as V);
            out.push(t.result as V);
        }
        None => out.extend([0, 0, 0]),
    }
}

/// IncrementalValueSync. case = [ackd, d0, threshold, ops..]; ops (code mod 5):
/// 0 d: update_latest_value(latest + d) | 1 c cap: on_transmit | 2 lo n: on_packet_ack(lo..=lo+n%4)
/// | 3 lo n: on_packet_loss | 4: stop_sync
/// output: [interest, inflight, cancelled, latest] then per op
/// [frames, value, result, interest, inflight, cancelled, latest]
fn ivs(input: &[V]) -> Vec<V> {
    let mut c = Cur::new(input);
    let ackd = arg(&mut c, VMAX);
    let d0 = arg(&mut c, VMAX);
    let th = arg(&mut c, VMAX);
    let latest0 = ackd.saturating_add(d0).min(VMAX);
    let mut s = hook::Incremental::new(latest0, ackd, th);
    let mut next_pn = 0u64;
    let mut out: Vec<V> = vec![
        s.interest() as V,
        s.is_inflight() as V,
        s.is_cancelled() as V,
        s.latest_value() as V,
    ];
    while !c.done() {
        let op = c.next().rem_euclid(5);
        let mut tx = None;
        match op {
            0 => {
                let d = arg(&mut c, VMAX);
                let nv = s.latest_value().saturating_add(d).min(VMAX);
                s.update_latest_value(nv);
            }
            1 => {
                let con = arg(&mut c, 3);
                let cap = capacity(&mut c);
                tx = Some(s.on_transmit(cap, con, next_pn, 1000));
                next_pn += 1;
            }
            2 | 3 => {
                let lo = arg(&mut c, VMAX);
                let n = arg(&mut c, VMAX) % 4;
                let hi = lo.saturating_add(n).min(VMAX);
                if op == 2 {
                    s.on_packet_ack(lo, hi);
                } else {
                    s.on_packet_loss(lo, hi);
                }
            }
            _ => s.stop_sync(),
        }
        push_tx(&mut out, tx);
        out.push(s.interest() as V);
        out.push(s.is_inflight() as V);
        out.push(s.is_cancelled() as V);
        out.push(s.latest_value() as V);
    }
    out
}

/// OnceSync. ops (code mod 6): 0 v: request_delivery(v) | 1 c cap: on_transmit | 2 lo n: ack
/// | 3 lo n: loss | 4: stop_sync | 5 v: force_delivery(v)
/// output: [interest, inflight, cancelled] then per op
/// [frames, value, result, interest, inflight, cancelled, ack returned Ready]
fn osync(input: &[V]) -> Vec<V> {
    let mut c = Cur::new(input);
    let mut s = hook::Once::new();
    let mut next_pn = 0u64;
    let mut out: Vec<V> = vec![s.interest() as V, s.is_inflight() as V, s.is_cancelled() as V];
    while !c.done() {
        let op = c.next().rem_euclid(6);
        let mut tx = None;
        let mut ready = false;
        match op {
            0 => {
                let v = arg(&mut c, VMAX);
                s.request_delivery(v);
            }
            1 => {
                let con = arg(&mut c, 3);
                let cap = capacity(&mut c);
                tx = Some(s.on_transmit(cap, con, next_pn, 1000));
                next_pn += 1;
            }
            2 | 3 => {
                let lo = arg(&mut c, VMAX);
                let n = arg(&mut c, VMAX) % 4;
                let hi = lo.saturating_add(n).min(VMAX);
                if op == 2 {
                    ready = s.on_packet_ack(lo, hi);
                } else {
                    s.on_packet_loss(lo, hi);
                }
            }
            4 => s.stop_sync(),
            _ => {
                let v = arg(&mut c, VMAX);
                s.force_delivery(v);
            }
        }
        push_tx(&mut out, tx);
        out.push(s.interest() as V);
        out.push(s.is_inflight() as V);
        out.push(s.is_cancelled() as V);
        out.push(ready as V);
    }
    out
}

/// PeriodicSync. ops (code mod 8): 0 d: request_delivery(latest + d) | 1 c cap t: on_transmit at t
/// | 2 lo n: ack | 3 lo n: loss | 4: stop_sync | 5 t: skip_delivery(t) | 6 t: on_timeout(t)
/// | 7 p: update_sync_period(p us)
/// output: [interest, armed, expiry, delivered] then per op
/// [frames, value, result, interest, timer armed, timer expiry (us), has_delivered]
fn psync(input: &[V]) -> Vec<V> {
    let mut c = Cur::new(input);
    let mut s = hook::Periodic::new();
    let mut next_pn = 0u64;
    let mut latest = 0u64;
    let obs = |s: &hook::Periodic, out: &mut Vec<V>| {
        out.push(s.interest() as V);
        out.push(s.timer().is_some() as V);
        out.push(s.timer().unwrap_or(0) as V);
        out.push(s.has_delivered() as V);
    };
    let mut out: Vec<V> = vec![];
    obs(&s, &mut out);
    while !c.done() {
        let op = c.next().rem_euclid(8);
        let mut tx = None;
        match op {
            0 => {
                let d = arg(&mut c, VMAX);
                latest = latest.saturating_add(d).min(VMAX);
                s.request_delivery(latest);
            }
            1 => {
                let con = arg(&mut c, 3);
                let cap = capacity(&mut c);
                let t = arg(&mut c, TMAX);
                tx = Some(s.on_transmit(cap, con, next_pn, t));
                next_pn += 1;
            }
            2 | 3 => {
                let lo = arg(&mut c, VMAX);
                let n = arg(&mut c, VMAX) % 4;
                let hi = lo.saturating_add(n).min(VMAX);
                if op == 2 {
                    s.on_packet_ack(lo, hi);
                } else {
                    s.on_packet_loss(lo, hi);
                }
            }
            4 => s.stop_sync(),
            5 => {
                let t = arg(&mut c, TMAX);
                s.skip_delivery(t);
            }
            6 => {
                let t = arg(&mut c, TMAX);
                s.on_timeout(t);
            }
            _ => {
                let p = arg(&mut c, PMAX);
                s.update_sync_period(p);
            }
        }
        push_tx(&mut out, tx);
        obs(&s, &mut out);
    }
    out
}

/// Idle timer. case = [local max_idle_timeout ms, peer max_idle_timeout ms, events..]; events (code mod 3):
/// 0 t pto: packet processed at t (us) with PTO period pto (us) | 1 t pto: ack-eliciting packet sent
/// | 2 t: on_timeout(t).
/// Real code driven: `MaxIdleTimeout::{new, load_peer, as_duration}`, `Timer::{set, poll_expiration}`,
/// `Timestamp`/`Duration` arithmetic. The three statements of `connection_impl.rs` that use them
/// (`get_idle_timer_duration`, `on_processed_packet`, `on_ack_eliciting_packet_sent`, the expiry branch of
/// `on_timeout`) are private to the connection and are transcribed here; the translator
/// (tools/genfam_C02.py) checks their shape and the factor in the source.
/// output: effective idle timeout (ms), then per event [armed, expiry us, reset_on_send, closed]
fn idle(input: &[V]) -> Vec<V> {
    use core::time::Duration;
    use s2n_quic_core::{
        time::{timer::Provider as _, Timer, Timestamp},
        transport::parameters::MaxIdleTimeout,
    };
    const IMAX: u64 = 1 << 32;
    const PTOMAX: u64 = 1 << 36;
    let ts = |us: u64| unsafe { Timestamp::from_duration(Duration::from_micros(us)) };
    let mut c = Cur::new(input);
    let local = arg(&mut c, IMAX);
    let peer = arg(&mut c, IMAX);
    let mut eff = MaxIdleTimeout::new(local).expect("below 2^62");
    eff.load_peer(&MaxIdleTimeout::new(peer).expect("below 2^62"));
    let mut out: Vec<V> = vec![eff.as_duration().map(|d| d.as_millis() as V).unwrap_or(0)];
    // get_idle_timer_duration
    let duration_of = |pto: Duration| -> Option<Duration> {
        let mut duration = eff.as_duration()?.as_millis() as u64;
        duration = duration.max(3 * pto.as_millis() as u64);
        Some(Duration::from_millis(duration))
    };
    let mut peer_idle_timer = Timer::default();
    let mut reset_peer_idle_timer_on_send = false;
    let mut closed = false;
    while !c.done() {
        let op = c.next().rem_euclid(3);
        match op {
            0 => {
                let t = arg(&mut c, TMAX);
                let pto = Duration::from_micros(arg(&mut c, PTOMAX));
                if !closed {
                    // on_processed_packet
                    if let Some(duration) = duration_of(pto) {
                        peer_idle_timer.set(ts(t) + duration);
                        reset_peer_idle_timer_on_send = true;
                    }
                }
            }
            1 => {
                let t = arg(&mut c, TMAX);
                let pto = Duration::from_micros(arg(&mut c, PTOMAX));
                if !closed {
                    // on_ack_eliciting_packet_sent
                    if core::mem::take(&mut reset_peer_idle_timer_on_send) {
                        if let Some(duration) = duration_of(pto) {
                            peer_idle_timer.set(ts(t) + duration);
                        }
                    }
                }
            }
            _ => {
                let t = arg(&mut c, TMAX);
                if !closed && peer_idle_timer.poll_expiration(ts(t)).is_ready() {
                    // Err(connection::Error::idle_timer_expired()) -> ConnectionState::Finished
                    closed = true;
                }
            }
        }
        let exp = peer_idle_timer.next_expiration();
        out.push(exp.is_some() as V);
        out.push(exp.map(|e| unsafe { e.as_duration().as_micros() as V }).unwrap_or(0));
        out.push(reset_peer_idle_timer_on_send as V);
        out.push(closed as V);
    }
    out
}

struct CountingWaker(std::sync::atomic::AtomicU64);
impl std::task::Wake for CountingWaker {
    fn wake(self: std::sync::Arc<Self>) {
        self.0.fetch_add(1, std::sync::atomic::Ordering::SeqCst);
    }
}

/// Reader wake-up of the real `ReceiveStream` inside the real `DefaultStreamManager` (hook
/// verif_hooks/recv.rs). One peer-initiated bidirectional stream whose receive window is W
/// (connection window far larger); the peer sends pieces in order or one segment ahead of a gap, never
/// beyond what the receiver currently admits (consumed + W).
/// case = [W, ops..]; ops (code mod 6): 0 n: STREAM piece of n bytes at the contiguous end (clipped to the window
/// room, or to the gap when a later segment is held; fills the gap) | 1 L H: read request with low watermark L,
/// high watermark max(H,1) and a counting waker | 2 n: the same piece with FIN (plain data while a gap is open)
/// | 3: RESET_STREAM(final size = highest offset delivered) | 4 g n: STREAM piece at contiguous end + g (one
/// such segment at a time) | 5 g n: the same with FIN.
/// After a FIN only the gap filler is sent, after a reset nothing; the case ends when a read returns
/// Finished or fails.
/// output per op: [bytes consumed, will_wake, status, number of wake() calls so far, bytes available (reads only)]
fn rxwake(input: &[V]) -> Vec<V> {
    use s2n_quic_transport::verif_hooks::recv::{self, FlowLimits, RxDriver};
    let mut c = Cur::new(input);
    let w = arg(&mut c, 8192).max(1);
    let local = FlowLimits {
        max_data_bidi_local: w,
        max_data_bidi_remote: w,
        max_data_uni: w,
        max_data: 1 << 30,
        max_bidi_streams: 100,
        max_uni_streams: 100,
    };
    let peer = FlowLimits {
        max_data_bidi_local: 1 << 20,
        max_data_bidi_remote: 1 << 20,
        max_data_uni: 1 << 20,
        max_data: 1 << 30,
        max_bidi_streams: 100,
        max_uni_streams: 100,
    };
    let mut d = RxDriver::new(true, local, peer);
    let sid = recv::stream_id(false, true, 0).unwrap();
    // the peer opens the stream with an empty STREAM frame; the application accepts it
    d.on_stream(sid, 0, &[], false).expect("stream opens");
    assert_eq!(d.accept(true), Some(sid));
    let counter = std::sync::Arc::new(CountingWaker(std::sync::atomic::AtomicU64::new(0)));
    let waker = std::task::Waker::from(counter.clone());
    let wakes = || counter.0.load(std::sync::atomic::Ordering::SeqCst) as V;
    let mut sent: u64 = 0; // contiguous end of what the receiver has got
    let mut consumed: u64 = 0;
    let mut ended: u8 = 0; // 0 open, 1 FIN delivered (final size known), 2 reset
    let mut ooo: Option<(u64, u64)> = None; // one segment delivered beyond a gap
    let mut out: Vec<V> = vec![];
    let payload = |from: u64, n: u64| -> Vec<u8> { (0..n).map(|i| ((from + i) % 251) as u8).collect() };
    while !c.done() {
        let op = c.next().rem_euclid(6);
        match op {
            0 | 2 => {
                let n = arg(&mut c, 1 << 20);
                let n = match ooo {
                    Some((a, _)) => n.min(a - sent),
                    None => n.min(consumed + w - sent),
                };
                let fin = op == 2 && ooo.is_none();
                let allowed = ended == 0 || (ended == 1 && ooo.is_some());
                if allowed && (n > 0 || fin) {
                    d.on_stream(sid, sent, &payload(sent, n), fin)
                        .expect("in-window data is accepted");
                    sent += n;
                    if let Some((a, b)) = ooo {
                        if sent == a {
                            sent = b;
                            ooo = None;
                        }
                    }
                    if fin {
                        ended = 1;
                    }
                }
            }
            4 | 5 => {
                let g = arg(&mut c, 1 << 20);
                let n = arg(&mut c, 1 << 20);
                let fin = op == 5;
                let start = sent.saturating_add(g);
                if ended == 0 && ooo.is_none() && g >= 1 && start <= consumed + w {
                    let n = n.min(consumed + w - start);
                    if n > 0 || fin {
                        d.on_stream(sid, start, &payload(start, n), fin)
                            .expect("in-window data beyond a gap is accepted");
                        ooo = Some((start, start + n));
                        if fin {
                            ended = 1;
                        }
                    }
                }
            }
            1 => {
                let low = arg(&mut c, 1 << 20) as usize;
                let high = (arg(&mut c, 1 << 20) as usize).max(1);
                let r = d.poll_rx(sid, low, high, &waker);
                consumed += r.consumed as u64;
                out.extend([r.consumed as V, r.will_wake as V, r.status as V]);
                out.push(wakes());
                out.push(r.available as V);
                if r.status == 2 || r.status == 9 {
                    break;
                }
                continue;
            }
            _ => {
                if ended == 0 {
                    let top = ooo.map(|(_, b)| b).unwrap_or(sent);
                    d.on_reset_stream(sid, 7, top).expect("reset with a valid final size");
                    ended = 2;
                }
            }
        }
        out.extend([0, 0, 0]);
        out.push(wakes());
        out.push(0);
    }
    out
}

fn main() {
    main_with(&[("ivs", ivs), ("osync", osync), ("psync", psync), ("idle", idle), ("rxwake", rxwake)]);
}
