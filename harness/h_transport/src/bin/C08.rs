use h_common::{main_with, Cur, V};
use s2n_codec::{DecoderBuffer, Encoder, EncoderBuffer, EncoderValue};
use s2n_quic_core::{
    packet::number::{PacketNumber, PacketNumberSpace},
    varint::VarInt,
};

fn space_of(v: V) -> PacketNumberSpace {
    match v.rem_euclid(3) {
        0 => PacketNumberSpace::Initial,
        1 => PacketNumberSpace::Handshake,
        _ => PacketNumberSpace::ApplicationData,
    }
}

fn pn_of(space: PacketNumberSpace, v: u64) -> PacketNumber {
    space.new_packet_number(VarInt::new(v).expect("generator keeps packet numbers below 2^62"))
}

/// C08 pn: case = [space, la, pn, L, len2, t2]
/// output = [tlen (0 = truncate returned None), tval (the bytes that go on the wire, big endian),
///           expansion of that truncated number against L (-1 if none),
///           expansion of the independent truncated number (len2 % 4 + 1 bytes, value t2 mod 2^bits) against L]
fn pn(input: &[V]) -> Vec<V> {
    let mut c = Cur::new(input);
    let space = space_of(c.next());
    let la = pn_of(space, c.u64());
    let pn = pn_of(space, c.u64());
    let l = pn_of(space, c.u64());
    let len2 = (c.u64() % 4 + 1) as usize;
    let t2 = c.next() as u128;

    // receiver side on an arbitrary wire value: take the low len2 bytes of t2, decode them as the
    // packet header decoder does, expand against L
    let bytes2: Vec<u8> = (0..len2).rev().map(|i| (t2 >> (8 * i)) as u8).collect();
    let plen = space.new_packet_number_len((len2 - 1) as u8);
    let (tpn2, _) = plen
        .decode_truncated_packet_number(DecoderBuffer::new(&bytes2))
        .expect("enough bytes");
    let d2 = tpn2.expand(l);
    assert_eq!(d2.space(), space);
    let d2 = PacketNumber::as_varint(d2).as_u64() as V;

    match pn.truncate(la) {
        None => vec![0, 0, -1, d2],
        Some(tpn) => {
            let len = tpn.len().bytesize();
            let mut buf = [0u8; 8];
            let mut enc = EncoderBuffer::new(&mut buf);
            tpn.encode(&mut enc);
            let n = enc.len();
            assert_eq!(n, len, "encoded size equals the announced length");
            let mut tv: u64 = 0;
            for b in &buf[..n] {
                tv = (tv << 8) | *b as u64;
            }
            let ex = tpn.expand(l);
            assert_eq!(ex.space(), space);
            vec![len as V, tv as V, PacketNumber::as_varint(ex).as_u64() as V, d2]
        }
    }
}

const VMAX: u64 = (1 << 62) - 1;

/// C08 txpn: ops `0 flags` (bit0 requires_probe, bit1 skip counter is zero, bit2 packet abandoned),
/// `1 a b lowest` (ACK of min(a,b)..=max(a,b) with the lowest packet number still tracked), `2 jump`.
/// output per op: transmit -> [pn | -3 (abandoned), skipped | -1]; ack -> [0 ok | 1 error,
/// largest_sent_packet_number_acked, next, should_skip]; jump -> [pn | -2, -1]; a panic -> [-1] and stop
fn txpn(input: &[V]) -> Vec<V> {
    use s2n_quic_transport::verif_hooks::ack_manager::TxPnDriver;
    use std::panic::{catch_unwind, AssertUnwindSafe};
    let mut c = Cur::new(input);
    let mut tx = TxPnDriver::new();
    let mut out = vec![];
    while !c.done() {
        match c.next().rem_euclid(3) {
            0 => {
                let fl = c.u64();
                let r = catch_unwind(AssertUnwindSafe(|| {
                    tx.transmit(fl & 1 != 0, fl & 2 != 0, fl & 4 != 0)
                }));
                match r {
                    Ok((Some(pn), skipped)) => {
                        out.push(pn as V);
                        out.push(skipped.map(|v| v as V).unwrap_or(-1));
                    }
                    Ok((None, _)) => {
                        out.push(-3);
                        out.push(-1);
                    }
                    Err(_) => {
                        out.push(-1);
                        break;
                    }
                }
            }
            1 => {
                let a = c.u64();
                let b = c.u64();
                let lowest = c.u64();
                let r = catch_unwind(AssertUnwindSafe(|| tx.on_packet_ack(a.min(b), a.max(b), lowest)));
                match r {
                    Ok(ok) => {
                        out.push(if ok { 0 } else { 1 });
                        out.push(tx.largest_sent_packet_number_acked() as V);
                        out.push(tx.next() as V);
                        out.push(tx.should_skip_packet_number() as V);
                    }
                    Err(_) => {
                        out.push(-1);
                        break;
                    }
                }
            }
            _ => {
                let jump = c.u64();
                // on_transmit(2^62 - 1) panics by design ("packet number overflowed"): not exercised here
                if tx.next().checked_add(jump).map_or(true, |v| v >= VMAX) {
                    out.push(-2);
                    out.push(-1);
                    continue;
                }
                let r = catch_unwind(AssertUnwindSafe(|| tx.transmit_at(jump)));
                match r {
                    Ok(Some(pn)) => {
                        out.push(pn as V);
                        out.push(-1);
                    }
                    Ok(None) => {
                        out.push(-2);
                        out.push(-1);
                    }
                    Err(_) => {
                        out.push(-1);
                        break;
                    }
                }
            }
        }
    }
    out
}

/// C08 ackmgr: header `sel` (0 default settings, 1 EARLY, 2 custom: mad_us exp interval limit follow), then ops
/// `0 dt pn flags` (processed packet; flags bit0 ack-eliciting, bits1-2 ecn, bit3 path challenge),
/// `1 dt ctl pkt` (packet assembly; ctl bits0-1 constraint, bits2-3 mode, bit4 other frames eliciting,
/// bit5 ACK does not fit, bit6 PING does not fit), `2 a b` (on_packet_ack), `3 a b` (on_packet_loss),
/// `4 dt` (on_timeout). Output per op: [frame: 0 | 1 ping delay e0 e1 ce k (lo hi)*k] (op 1 only) then
/// status [timer | -1, active, largest_received_packet_number_acked]
fn ackmgr(input: &[V]) -> Vec<V> {
    use s2n_quic_transport::verif_hooks::ack_manager::AckDriver;
    let mut c = Cur::new(input);
    let (mad, exp, interval, limit) = if c.done() {
        AckDriver::default_settings()
    } else {
        match c.next().rem_euclid(3) {
            0 => AckDriver::default_settings(),
            1 => AckDriver::early_settings(),
            _ => {
                let mad = c.u64();
                let exp = (c.u64() % 21) as u8;
                let interval = (c.u64() % 256) as u8;
                let limit = (c.u64() % 255 + 1) as u8;
                (mad, exp, interval, limit)
            }
        }
    };
    let mut d = AckDriver::new(2, mad, exp, interval, limit);
    let mut now: u64 = 1;
    let mut out = vec![];
    while !c.done() {
        match c.next().rem_euclid(5) {
            0 => {
                now += c.u64();
                let pn = c.u64();
                let fl = c.u64();
                d.on_processed_packet(pn, fl & 1 != 0, now, ((fl >> 1) & 3) as u8, fl & 8 != 0);
            }
            1 => {
                now += c.u64();
                let ctl = c.u64();
                let pkt = c.u64();
                let o = d.transmit(
                    now,
                    (ctl & 3) as u8,
                    ((ctl >> 2) & 3) as u8,
                    pkt,
                    ctl & 16 != 0,
                    ctl & 32 == 0,
                    ctl & 64 == 0,
                );
                if o.wrote_ack {
                    out.push(1);
                    out.push(o.ping as V);
                    out.push(o.ack_delay as V);
                    match o.ecn {
                        Some((a, b, c)) => out.extend([a as V, b as V, c as V]),
                        None => out.extend([-1, -1, -1]),
                    }
                    out.push(o.ranges.len() as V);
                    for (lo, hi) in o.ranges {
                        out.push(lo as V);
                        out.push(hi as V);
                    }
                } else {
                    out.push(0);
                }
            }
            2 => {
                let a = c.u64();
                let b = c.u64();
                d.on_packet_ack(now, a.min(b), a.max(b));
            }
            3 => {
                let a = c.u64();
                let b = c.u64();
                d.on_packet_loss(a.min(b), a.max(b));
            }
            _ => {
                now += c.u64();
                d.on_timeout(now);
            }
        }
        out.push(d.timer().map(|t| t as V).unwrap_or(-1));
        out.push(d.is_active() as V);
        out.push(d.largest_received_packet_number_acked() as V);
    }
    out
}

fn main() {
    main_with(&[("pn", pn), ("txpn", txpn), ("ackmgr", ackmgr)]);
}
