use h_common::main_with;
#[path = "../send_driver.rs"]
mod send_driver;
#[path = "../streams_driver.rs"]
mod streams_driver;
#[path = "../manager_driver.rs"]
mod manager_driver;
#[path = "../close_driver.rs"]
mod close_driver;

fn main() {
    main_with(&[("cs", close_driver::cs), ("st", streams_driver::st), ("sm", manager_driver::sm), ("ss", send_driver::ss)]);
}
