//! C04 -- peer protocol violations are rejected with the right error; buffering is bounded.
use h_common::{main_with, Cur, V};
use s2n_quic_transport::verif_hooks::recv::{self, FlowLimits, Read, RxDriver};

const VMAX: u64 = (1 << 62) - 1;

fn enc_read(r: Read, out: &mut Vec<V>) {
    match r {
        Read::Error => out.push(-1),
        Read::Data(bytes, fin) => {
            out.push(bytes.len() as V);
            out.push(fin as V);
            let mut runs: Vec<(u8, usize)> = vec![];
            for b in bytes {
                match runs.last_mut() {
                    Some((t, n)) if *t == b => *n += 1,
                    _ => runs.push((b, 1)),
                }
            }
            out.push(runs.len() as V);
            for (t, n) in runs {
                out.push(t as V);
                out.push(n as V);
            }
        }
    }
}

/// rx: [window of peer-initiated streams, window of locally initiated streams, connection window,
/// ops..] -- see coq/model/FlowRecv.v (parse / step); stream index 0, 1 = client initiated
/// bidirectional, 2, 3 = bidirectional streams opened by the local (server) application up front
///  1 s off len fin  STREAM frame (data = `len` bytes all equal to the frame's running number)
///  2 s size         RESET_STREAM
///  3 s n            application reads at most n bytes
///  4 s              application stop_sending
///  5                one packet is transmitted: output MAX_DATA, MAX_STREAM_DATA x4 (-1 = not sent)
///  6 k / 7 k        packet k acknowledged / lost
///  8 s              STREAM_DATA_BLOCKED
/// A rejected frame closes the manager; the output then lists what each stream still hands to
/// the application, and the case ends.
fn rx(input: &[V]) -> Vec<V> {
    let mut c = Cur::new(input);
    let ws = c.u64().min(u32::MAX as u64);
    let wl = c.u64().min(u32::MAX as u64);
    let wc = c.u64().min(u32::MAX as u64);
    let local = FlowLimits {
        max_data_bidi_local: wl,
        max_data_bidi_remote: ws,
        max_data_uni: ws,
        max_data: wc,
        max_bidi_streams: 100,
        max_uni_streams: 100,
    };
    let peer = FlowLimits {
        max_data_bidi_local: 1 << 20,
        max_data_bidi_remote: 1 << 20,
        max_data_uni: 1 << 20,
        max_data: 1 << 20,
        max_bidi_streams: 100,
        max_uni_streams: 100,
    };
    // local endpoint = server
    let mut d = RxDriver::new(true, local, peer);
    let ids: [u64; 4] = [
        recv::stream_id(false, true, 0).unwrap(),
        recv::stream_id(false, true, 1).unwrap(),
        d.open_local(true).expect("first local stream"),
        d.open_local(true).expect("second local stream"),
    ];
    assert_eq!(ids[2], recv::stream_id(true, true, 0).unwrap());
    assert_eq!(ids[3], recv::stream_id(true, true, 1).unwrap());
    let sid = |v: V| ids[((v as u64) % 4) as usize];
    let mut out: Vec<V> = vec![];
    let mut tag: u64 = 1;
    let closed = |d: &mut RxDriver, out: &mut Vec<V>| {
        assert!(d.is_closed(), "a rejected frame closes the stream manager");
        for i in 0..4 {
            let r = d.read(ids[i], usize::MAX);
            enc_read(r, out);
        }
    };
    while !c.done() {
        match c.next() {
            1 => {
                let s = sid(c.next());
                let off = c.u64().min(VMAX);
                let len = c.u64().min(65536) as usize;
                let fin = c.next() != 0;
                let data = vec![tag as u8; len];
                tag += 1;
                let r = std::panic::catch_unwind(std::panic::AssertUnwindSafe(|| {
                    d.on_stream(s, off, &data, fin)
                }));
                match r {
                    Ok(Ok(())) => out.push(0),
                    Ok(Err(code)) => {
                        out.push(code as V);
                        closed(&mut d, &mut out);
                        return out;
                    }
                    Err(_) => {
                        out.push(-99);
                        return out;
                    }
                }
            }
            2 => {
                let s = sid(c.next());
                let size = c.u64().min(VMAX);
                match d.on_reset_stream(s, 7, size) {
                    Ok(()) => out.push(0),
                    Err(code) => {
                        out.push(code as V);
                        closed(&mut d, &mut out);
                        return out;
                    }
                }
            }
            3 => {
                let s = sid(c.next());
                let n = c.u64().min(usize::MAX as u64) as usize;
                let r = d.read(s, n);
                enc_read(r, &mut out);
            }
            4 => {
                let s = sid(c.next());
                d.stop_sending(s, 9);
            }
            5 => {
                let (_pn, frames) = d.transmit();
                let mut md: V = -1;
                let mut msd: [V; 4] = [-1; 4];
                for (k, a, b) in frames {
                    if k == 0x10 {
                        assert_eq!(md, -1, "one MAX_DATA per packet");
                        md = a as V;
                    } else if k == 0x11 {
                        let i = (0..4)
                            .find(|i| ids[*i] == a)
                            .expect("MAX_STREAM_DATA for a known stream");
                        assert_eq!(msd[i], -1, "one MAX_STREAM_DATA per stream and packet");
                        msd[i] = b as V;
                    }
                }
                out.push(md);
                out.extend_from_slice(&msd);
            }
            6 => {
                let k = c.u64();
                d.ack(k, k);
            }
            7 => {
                let k = c.u64();
                d.loss(k, k);
            }
            8 => {
                let s = sid(c.next());
                match d.on_stream_data_blocked(s, 0) {
                    Ok(()) => out.push(0),
                    Err(code) => {
                        out.push(code as V);
                        closed(&mut d, &mut out);
                        return out;
                    }
                }
            }
            _ => break,
        }
    }
    out
}

/// st: [local_is_server, limit of peer-initiated bidirectional streams, ... unidirectional, ops..]
///  1 t n k   peer frame of kind k for the n-th stream of class t
///            (t: 0 peer bidi, 1 peer uni, 2 local bidi, 3 local uni;
///             k: 0 STREAM(empty) 1 STREAM(empty, FIN) 2 RESET_STREAM(0) 3 STREAM_DATA_BLOCKED
///                4 MAX_STREAM_DATA 5 STOP_SENDING)            -> [code]; an error ends the case
///  2 b       the application opens a local stream (b != 0: bidirectional) -> [1 | 0]
///  3 _ n     the application reads the n-th peer-initiated unidirectional stream
///            -> [-1 error | 0 | 1 finished]
///  4         200 ms pass
///  5         timers fire, one packet is transmitted -> [MAX_STREAMS bidi | -1, MAX_STREAMS uni | -1]
///  6 k / 7 k packet k acknowledged / lost
fn st(input: &[V]) -> Vec<V> {
    let mut c = Cur::new(input);
    let server = c.next() != 0;
    let lb = c.u64().min(1 << 20);
    let lu = c.u64().min(1 << 20);
    let local = FlowLimits {
        max_data_bidi_local: 1000,
        max_data_bidi_remote: 1000,
        max_data_uni: 1000,
        max_data: 100000,
        max_bidi_streams: lb,
        max_uni_streams: lu,
    };
    let peer = FlowLimits {
        max_data_bidi_local: 1000,
        max_data_bidi_remote: 1000,
        max_data_uni: 1000,
        max_data: 100000,
        max_bidi_streams: 500,
        max_uni_streams: 500,
    };
    let mut d = RxDriver::new(server, local, peer);
    let id = |t: V, n: V| -> u64 {
        let t = (t as u64) % 4;
        let local_init = t >= 2;
        let bidi = t % 2 == 0;
        let initiator_is_server = if local_init { server } else { !server };
        recv::stream_id(initiator_is_server, bidi, (n as u64) % 64).unwrap()
    };
    let mut out: Vec<V> = vec![];
    while !c.done() {
        match c.next() {
            1 => {
                let t = c.next();
                let n = c.next();
                let s = id(t, n);
                let r = match c.next() {
                    0 => d.on_stream(s, 0, &[], false),
                    1 => d.on_stream(s, 0, &[], true),
                    2 => d.on_reset_stream(s, 3, 0),
                    3 => d.on_stream_data_blocked(s, 0),
                    4 => d.on_max_stream_data(s, 2000),
                    _ => d.on_stop_sending(s, 4),
                };
                match r {
                    Ok(()) => out.push(0),
                    Err(code) => {
                        out.push(code as V);
                        assert!(d.is_closed());
                        return out;
                    }
                }
            }
            2 => {
                let b = c.next() != 0;
                out.push(d.open_local(b).is_some() as V);
            }
            3 => {
                let _t = c.next();
                let n = c.next();
                // only peer-initiated unidirectional streams are read (and thereby closed)
                match d.read(id(1, n), 10) {
                    Read::Error => out.push(-1),
                    Read::Data(_, fin) => out.push(fin as V),
                }
            }
            4 => d.advance(200_000),
            5 => {
                d.on_timeout();
                let (_pn, frames) = d.transmit();
                let mut v: [V; 2] = [-1, -1];
                for (k, a, _b) in frames {
                    if k == 0x12 || k == 0x13 {
                        let i = (k - 0x12) as usize;
                        assert_eq!(v[i], -1, "one MAX_STREAMS per type and packet");
                        v[i] = a as V;
                    }
                }
                out.extend_from_slice(&v);
            }
            6 => {
                let k = c.u64();
                d.ack(k, k);
            }
            7 => {
                let k = c.u64();
                d.loss(k, k);
            }
            _ => break,
        }
    }
    out
}

/// fv: [kind, a, b, c] -- limit-carrying frames as they come off the wire, decoded by
/// s2n-quic-core's frame decoder; the decoder's error is mapped the way
/// space::handle_cleartext_payload maps it (`transport::Error::from`).
///   kind 0/1 MAX_STREAMS bidi/uni (value a), 2/3 STREAMS_BLOCKED bidi/uni (value a),
///   4 NEW_CONNECTION_ID (sequence a, retire_prior_to b, connection id length c)
/// output: [0] decoded, [code] rejected
fn fv(input: &[V]) -> Vec<V> {
    use s2n_codec::{DecoderBufferMut, Encoder, EncoderBuffer};
    use s2n_quic_core::{frame::FrameMut, transport, varint::VarInt};
    let mut c = Cur::new(input);
    let kind = c.u64() % 5;
    let a = VarInt::new(c.u64().min(VMAX)).unwrap();
    let b = VarInt::new(c.u64().min(VMAX)).unwrap();
    let len = c.u64().min(255) as u8;
    let mut bytes = vec![0u8; 64 + 255];
    let n = {
        let mut e = EncoderBuffer::new(&mut bytes[..]);
        match kind {
            0 | 1 => {
                e.encode(&(0x12u8 + kind as u8));
                e.encode(&a);
            }
            2 | 3 => {
                e.encode(&(0x16u8 + (kind as u8 - 2)));
                e.encode(&a);
            }
            _ => {
                e.encode(&0x18u8);
                e.encode(&a);
                e.encode(&b);
                e.encode(&len);
                for i in 0..len {
                    e.encode(&i);
                }
                for i in 0..16u8 {
                    e.encode(&(0xa0u8 + i));
                }
            }
        }
        e.len()
    };
    bytes.truncate(n);
    let res = match DecoderBufferMut::new(&mut bytes[..]).decode::<FrameMut>() {
        Ok((_frame, rest)) => {
            assert!(rest.is_empty(), "the whole frame is consumed");
            0
        }
        Err(e) => transport::Error::from(e).code.as_u64() as V,
    };
    vec![res]
}

/// crypto: ops `1 off len` CRYPTO frame (-> code, and when accepted the in-order bytes waiting),
/// `2 n` TLS takes at most n bytes (-> bytes taken); a rejected frame ends the case
fn crypto(input: &[V]) -> Vec<V> {
    use s2n_quic_transport::verif_hooks::crypto_stream::CryptoRxDriver;
    let mut c = Cur::new(input);
    let mut d = CryptoRxDriver::new();
    let mut out: Vec<V> = vec![];
    while !c.done() {
        match c.next() {
            1 => {
                let off = c.u64().min(VMAX);
                let len = c.u64().min(65536) as usize;
                let data = vec![0x5au8; len];
                match d.on_crypto_frame(off, &data) {
                    Ok(()) => {
                        out.push(0);
                        out.push(d.buffered_in_order() as V);
                    }
                    Err(code) => {
                        out.push(code as V);
                        return out;
                    }
                }
            }
            2 => {
                let n = c.u64().min(usize::MAX as u64) as usize;
                out.push(d.consume(n).len() as V);
            }
            _ => break,
        }
    }
    out
}

fn main() {
    main_with(&[("rx", rx), ("rx_tolerant", rx), ("st", st), ("st_tolerant", st), ("fv", fv), ("crypto", crypto)]);
}
