//! C04 -- peer protocol violations are rejected with the right error; buffering is bounded.
use h_common::{main_with, Cur, V};
use s2n_quic_transport::verif_hooks::recv::{self, FlowLimits, Read, RxDriver};

const VMAX: u64 = (1 << 62) - 1;

fn enc_read(r: Read, out: &mut Vec<V>) {
    match r {
        Read::Error => out.push(-1),
        Read::Data(bytes, fin) => {
            out.push(bytes.len() as V);
            out.push(fin as V);
            let mut runs: Vec<(u8, usize)> = vec![];
            for b in bytes {
                match runs.last_mut() {
                    Some((t, n)) if *t == b => *n += 1,
                    _ => runs.push((b, 1)),
                }
            }
            out.push(runs.len() as V);
            for (t, n) in runs {
                out.push(t as V);
                out.push(n as V);
            }
        }
    }
}

/// rx: [stream window, connection window, ops..] -- see coq/model/FlowRecv.v (parse / step)
///  1 s off len fin  STREAM frame (data = `len` bytes all equal to the frame's running number)
///  2 s size         RESET_STREAM
///  3 s n            application reads at most n bytes
///  4 s              application stop_sending
///  5                one packet is transmitted: output MAX_DATA, MAX_STREAM_DATA x4 (-1 = not sent)
///  6 k / 7 k        packet k acknowledged / lost
///  8 s              STREAM_DATA_BLOCKED
/// A rejected frame closes the manager; the output then lists what each stream still hands to
/// the application, and the case ends.
fn rx(input: &[V]) -> Vec<V> {
    let mut c = Cur::new(input);
    let ws = c.u64().min(u32::MAX as u64);
    let wc = c.u64().min(u32::MAX as u64);
    let local = FlowLimits {
        max_data_bidi_local: ws,
        max_data_bidi_remote: ws,
        max_data_uni: ws,
        max_data: wc,
        max_bidi_streams: 100,
        max_uni_streams: 100,
    };
    let peer = FlowLimits {
        max_data_bidi_local: 1 << 20,
        max_data_bidi_remote: 1 << 20,
        max_data_uni: 1 << 20,
        max_data: 1 << 20,
        max_bidi_streams: 100,
        max_uni_streams: 100,
    };
    // local endpoint = server, streams = client initiated bidirectional 0, 4, 8, 12
    let mut d = RxDriver::new(true, local, peer);
    let sid = |v: V| recv::stream_id(false, true, (v as u64) % 4).unwrap();
    let mut out: Vec<V> = vec![];
    let mut tag: u64 = 1;
    let closed = |d: &mut RxDriver, out: &mut Vec<V>| {
        assert!(d.is_closed(), "a rejected frame closes the stream manager");
        for i in 0..4 {
            let r = d.read(recv::stream_id(false, true, i).unwrap(), usize::MAX);
            enc_read(r, out);
        }
    };
    while !c.done() {
        match c.next() {
            1 => {
                let s = sid(c.next());
                let off = c.u64().min(VMAX);
                let len = c.u64().min(65536) as usize;
                let fin = c.next() != 0;
                let data = vec![tag as u8; len];
                tag += 1;
                let r = std::panic::catch_unwind(std::panic::AssertUnwindSafe(|| {
                    d.on_stream(s, off, &data, fin)
                }));
                match r {
                    Ok(Ok(())) => out.push(0),
                    Ok(Err(code)) => {
                        out.push(code as V);
                        closed(&mut d, &mut out);
                        return out;
                    }
                    Err(_) => {
                        out.push(-99);
                        return out;
                    }
                }
            }
            2 => {
                let s = sid(c.next());
                let size = c.u64().min(VMAX);
                match d.on_reset_stream(s, 7, size) {
                    Ok(()) => out.push(0),
                    Err(code) => {
                        out.push(code as V);
                        closed(&mut d, &mut out);
                        return out;
                    }
                }
            }
            3 => {
                let s = sid(c.next());
                let n = c.u64().min(usize::MAX as u64) as usize;
                let r = d.read(s, n);
                enc_read(r, &mut out);
            }
            4 => {
                let s = sid(c.next());
                d.stop_sending(s, 9);
            }
            5 => {
                let (_pn, frames) = d.transmit();
                let mut md: V = -1;
                let mut msd: [V; 4] = [-1; 4];
                for (k, a, b) in frames {
                    if k == 0x10 {
                        assert_eq!(md, -1, "one MAX_DATA per packet");
                        md = a as V;
                    } else if k == 0x11 {
                        let i = (0..4)
                            .find(|i| recv::stream_id(false, true, *i).unwrap() == a)
                            .expect("MAX_STREAM_DATA for a known stream");
                        assert_eq!(msd[i as usize], -1, "one MAX_STREAM_DATA per stream and packet");
                        msd[i as usize] = b as V;
                    }
                }
                out.push(md);
                out.extend_from_slice(&msd);
            }
            6 => {
                let k = c.u64();
                d.ack(k, k);
            }
            7 => {
                let k = c.u64();
                d.loss(k, k);
            }
            8 => {
                let s = sid(c.next());
                match d.on_stream_data_blocked(s, 0) {
                    Ok(()) => out.push(0),
                    Err(code) => {
                        out.push(code as V);
                        closed(&mut d, &mut out);
                        return out;
                    }
                }
            }
            _ => break,
        }
    }
    out
}

fn main() {
    main_with(&[("rx", rx), ("rx_tolerant", rx)]);
}
