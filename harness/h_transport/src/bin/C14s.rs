//! C14 (session level) -- connection id authentication of the handshake (RFC 9000 7.3).
//!
//! component `sess`: case =
//!   role :: retry_flag :: retry_len :: retry bytes.. :: odcid_len :: odcid bytes.. ::
//!   peer_len :: peer cid bytes.. :: block bytes..
//!   role 0: a server endpoint receives a client's block (`on_client_params`)
//!   role _: a client endpoint receives a server's block (`on_server_params`)
//!   retry_flag: the client processed a Retry packet whose Source Connection ID follows
//!   odcid: Destination Connection ID of the client's first Initial packet (8..=20 bytes)
//!   peer cid: the connection id the peer's packets carry as Source Connection ID (0..=20 bytes)
//! output: `[0]` when the handshake goes on, `[1, code]` when it fails with transport error `code`.
use h_common::{main_with, Cur, V};
use s2n_quic_transport::verif_hooks::session::{authenticate, Handshake};

fn bytes(c: &mut Cur) -> Vec<u8> {
    let n = c.usize().min(64);
    (0..n).map(|_| c.next() as u8).collect()
}

fn sess(input: &[V]) -> Vec<V> {
    let mut c = Cur::new(input);
    let client_endpoint = c.next() != 0;
    let retry_flag = c.next() != 0;
    let retry = bytes(&mut c);
    let odcid = bytes(&mut c);
    let peer = bytes(&mut c);
    let block: Vec<u8> = input[c.i.min(input.len())..].iter().map(|v| *v as u8).collect();
    let hs = Handshake {
        retry_cid: if retry_flag { Some(&retry[..]) } else { None },
        initial_cid: &odcid,
        peer_cid: &peer,
    };
    match authenticate(client_endpoint, &hs, &block) {
        Ok(()) => vec![0],
        Err(code) => vec![1, code as V],
    }
}

fn main() {
    main_with(&[("sess", sess)]);
}
