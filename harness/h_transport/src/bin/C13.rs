//! C13 -- connection IDs are issued, routed and retired consistently.
//! Components drive the real `LocalIdRegistry` / `ConnectionIdMapper` (`lcid`) and `PeerIdRegistry`
//! (`pcid`) through the verif hook `s2n_quic_transport::verif_hooks::cids` and print the same
//! observables as the Coq models in coq/model/{LocalIds,PeerIds}.v.
use h_common::{main_with, Cur, V};
use s2n_quic_transport::verif_hooks::cids::{LocalSide, PeerSide};

const T0: u64 = 100_000_000; // the virtual clock starts at 100 s (microseconds)
const ID_BASE: u64 = 1000;
const TOK_BASE: u128 = 5000;
const MIN_LIFE: u64 = 60_000_000;
const MAX_LIFE: u64 = 86_400_000_000;
const MAX_STEP: u64 = 200_000_000; // at most 200 s per timeout step
const MAX_RTT: u64 = 10_000_000;
const MAX_IDS: usize = 40;

fn life(v: V) -> Option<u64> {
    if v <= 0 {
        None
    } else {
        Some((v as u64).clamp(MIN_LIFE, MAX_LIFE))
    }
}

/// C13 local side. Case = `nconn (rot life)^nconn op*`, every op is 5 integers `code c a b d`:
///  1 set_limit(c, 2 + a mod 7)           (only the first one per connection is applied)
///  2 register(c, life=a, reuse=b, max=d) registers min(interest, max(1,d)) ids
///  3 retire(c, seq=a, dsel=b, rtt=d)     peer's RETIRE_CONNECTION_ID(seq) in a packet with DCID dsel
///  4 transmit(c, constraint=a, cap=b)
///  5 ack(c, lo=a, hi=b)    6 loss(c, lo=a, hi=b)
///  7 timeout(c, dt=a)      8 handshake_confirmed(c)     9 close(c)
/// Output per op: `code r...` then the observables of c, then one lookup per id generated so far.
fn lcid(input: &[V]) -> Vec<V> {
    let mut cur = Cur::new(input);
    let mut out = vec![];
    let mut side = LocalSide::new();
    let nconn = (cur.next().rem_euclid(3) + 1) as usize;
    let mut now = T0;
    let mut nids: usize = 0; // ids generated so far: id value = ID_BASE + k, token = TOK_BASE + k
    // per connection: ids registered (in order = expected sequence number), packet counter, limit applied
    let mut regd: Vec<Vec<u64>> = vec![];
    let mut pns: Vec<u64> = vec![];
    let mut limit_set: Vec<bool> = vec![];
    for _ in 0..nconn {
        let rot = cur.next().rem_euclid(2) == 1;
        let l = life(cur.next());
        let id = ID_BASE + nids as u64;
        side.open(id, TOK_BASE + nids as u128, l.map(|l| now + l), rot);
        regd.push(vec![id]);
        pns.push(0);
        limit_set.push(false);
        nids += 1;
    }
    let lookups = |side: &LocalSide, nids: usize, out: &mut Vec<V>| {
        for k in 0..nids {
            out.push(side.lookup(ID_BASE + k as u64));
        }
    };
    lookups(&side, nids, &mut out);
    while !cur.done() {
        let code = cur.next().rem_euclid(10);
        let c = cur.next().rem_euclid(nconn as V) as usize;
        let a = cur.next();
        let b = cur.next();
        let d = cur.next();
        out.push(code);
        if !side.is_open(c) {
            out.push(-2);
        } else {
            match code {
                1 => {
                    if limit_set[c] {
                        out.push(0);
                    } else {
                        limit_set[c] = true;
                        side.set_limit(c, 2 + a.rem_euclid(7) as u64);
                        out.push(1);
                    }
                }
                2 => {
                    let want = side.interest(c);
                    let maxn = d.rem_euclid(4).max(1);
                    let n = want.min(maxn).min((MAX_IDS - nids) as V);
                    out.push(n);
                    for i in 0..n {
                        // every attempt takes a fresh slot k (id ID_BASE + k, token TOK_BASE + k); a reuse
                        // attempt (first id of the op only) offers an old id instead, and only while that
                        // id is still routed, so that it must be refused
                        let reuse = if i == 0 && b > 0 {
                            let k = ((b - 1) as usize) % nids;
                            if side.lookup(ID_BASE + k as u64) != 0 {
                                Some(ID_BASE + k as u64)
                            } else {
                                None
                            }
                        } else {
                            None
                        };
                        let id = reuse.unwrap_or(ID_BASE + nids as u64);
                        let r = side.register(c, id, TOK_BASE + nids as u128, life(a).map(|l| now + l));
                        out.push(r);
                        out.push(id as V);
                        if r == 0 {
                            regd[c].push(id);
                        }
                        nids += 1;
                    }
                }
                3 => {
                    let seq = a.rem_euclid(16) as u32;
                    let mine = &regd[c];
                    let dcid = if b.rem_euclid(4) == 0 {
                        mine[(seq as usize).min(mine.len() - 1)]
                    } else {
                        mine[(b.rem_euclid(64) as usize - 1) % mine.len()]
                    };
                    let rtt = (d.max(0) as u64).min(MAX_RTT);
                    let r = side.retire(c, seq, dcid, rtt, now);
                    out.push(r);
                    out.push(dcid as V);
                    if r != 0 {
                        side.close(c);
                    }
                }
                4 => {
                    let frames = side.transmit(c, a.rem_euclid(4), b.rem_euclid(5) as usize, pns[c], now);
                    out.push(pns[c] as V);
                    pns[c] += 1;
                    out.push(frames.len() as V);
                    for f in frames {
                        out.extend_from_slice(&f);
                    }
                }
                5 | 6 => {
                    let lo = a.rem_euclid(64) as u64;
                    let hi = lo + b.rem_euclid(4) as u64;
                    if code == 5 {
                        side.ack(c, lo, hi)
                    } else {
                        side.loss(c, lo, hi)
                    }
                }
                7 => {
                    now += (a.max(0) as u64).min(MAX_STEP);
                    side.timeout(c, now);
                    out.push(now as V);
                }
                8 => side.handshake_confirmed(c),
                9 => side.close(c),
                _ => {}
            }
        }
        if side.is_open(c) {
            out.push(side.interest(c));
            out.push(side.timer(c));
            out.push(side.tx_interest(c));
        } else {
            out.extend_from_slice(&[-2, -2, -2]);
        }
        lookups(&side, nids, &mut out);
    }
    out
}

const PID_BASE: u64 = 2000;
const PTOK_BASE: u128 = 7000;

/// C13 peer side. Case = `rot tok0 op*`, every op is 5 integers `code a b c d`:
///  1 NEW_CONNECTION_ID(seq=a, retire_prior_to=b, id=PID_BASE + c mod 16, token=PTOK_BASE + d mod 16) as it
///    arrives on the wire, followed by the path manager's reaction (a retired active DCID is replaced)
///  2 migrate: consume_new_id_for_new_path, the new id (if any) becomes the DCID in use
///  3 transmit(constraint=a, cap=b)   4 ack(lo=a, hi=a + b mod 4)   5 loss(lo=a, hi=a + b mod 4)
/// Output per op: `code r...` then `tx_interest dcid` (or -2 -2 once the connection is closed);
/// at the end one flag per token value: is it tracked for stateless reset detection.
fn pcid(input: &[V]) -> Vec<V> {
    let mut cur = Cur::new(input);
    let mut out = vec![];
    let rot = cur.next().rem_euclid(2) == 1;
    let tok0 = cur.next().rem_euclid(2) == 1;
    let mut side = PeerSide::new(PID_BASE, if tok0 { Some(PTOK_BASE) } else { None }, rot);
    let mut open = true;
    let mut dcid: V = PID_BASE as V;
    let mut pn: u64 = 0;
    while !cur.done() {
        let code = cur.next().rem_euclid(6);
        let a = cur.next();
        let b = cur.next();
        let c = cur.next();
        let d = cur.next();
        out.push(code);
        if !open {
            out.push(-2);
        } else {
            match code {
                1 => {
                    let seq = (a.max(0) as u64).min((1 << 62) - 1);
                    let rpt = (b.max(0) as u64).min((1 << 62) - 1);
                    let id = PID_BASE + c.rem_euclid(16) as u64;
                    let tok = PTOK_BASE + d.rem_euclid(16) as u128;
                    let mut r = side.on_new_connection_id_frame(seq, rpt, id, tok);
                    if r == 0 && !side.is_active(dcid as u64) {
                        // path::Manager::on_new_connection_id
                        let n = side.consume_new_id();
                        if n < 0 {
                            r = 0xa; // PROTOCOL_VIOLATION: no unused connection id remains
                        } else {
                            dcid = n;
                        }
                    }
                    out.push(r);
                    if r != 0 {
                        side.close();
                        open = false;
                    }
                }
                2 => {
                    let n = side.consume_new_id();
                    if n >= 0 {
                        dcid = n;
                    }
                    out.push(n);
                }
                3 => {
                    let frames = side.transmit(a.rem_euclid(4), b.rem_euclid(5) as usize, pn, T0);
                    out.push(pn as V);
                    pn += 1;
                    out.push(frames.len() as V);
                    for f in frames {
                        out.push(f[0]);
                        out.push(f[1]);
                    }
                }
                4 | 5 => {
                    let lo = a.rem_euclid(64) as u64;
                    let hi = lo + b.rem_euclid(4) as u64;
                    if code == 4 {
                        side.ack(lo, hi)
                    } else {
                        side.loss(lo, hi)
                    }
                }
                _ => {}
            }
        }
        if open {
            out.push(side.tx_interest());
            out.push(dcid);
        } else {
            out.extend_from_slice(&[-2, -2]);
        }
    }
    for k in 0..16u128 {
        out.push(side.take_token(PTOK_BASE + k) as V);
    }
    out
}

fn main() {
    main_with(&[("lcid", lcid), ("pcid", pcid)]);
}
