use h_common::main_with;
#[path = "../send_driver.rs"]
mod send_driver;
#[path = "../streams_driver.rs"]
mod streams_driver;
#[path = "../manager_driver.rs"]
mod manager_driver;

fn main() {
    // `ssr` is the same driver; only the judgement applied to its output differs
    main_with(&[("st", streams_driver::st), ("sm", manager_driver::sm), ("ss", send_driver::ss), ("ssr", send_driver::ss)]);
}
