//! C09 -- loss detection sound; in-flight bookkeeping exact; RTT / PTO bounds.
//! Components drive the real `s2n_quic_core::recovery::{loss::detect, RttEstimator, Pto}` (and, for
//! `manager`, `s2n_quic_transport::recovery::Manager` through the verif hook) and print the same
//! observables as the Coq models in coq/model/{Loss,Rtt,Pto,Recovery}.v.
use core::time::Duration;
use h_common::{main_with, V};
use s2n_quic_core::{
    packet::number::{PacketNumber, PacketNumberSpace},
    recovery::{loss, Pto, RttEstimator},
    time::{timer::Provider as _, Timestamp},
    transport::parameters::MaxAckDelay,
    varint::VarInt,
};

fn ts(us: V) -> Timestamp {
    unsafe { Timestamp::from_duration(Duration::from_micros(us as u64)) }
}

fn ts_us(t: Timestamp) -> V {
    unsafe { t.as_duration().as_micros() as V }
}

fn ns(d: Duration) -> V {
    d.as_nanos() as V
}

fn space(v: V) -> PacketNumberSpace {
    match v {
        0 => PacketNumberSpace::Initial,
        1 => PacketNumberSpace::Handshake,
        _ => PacketNumberSpace::ApplicationData,
    }
}

fn pn(sp: PacketNumberSpace, v: V) -> PacketNumber {
    sp.new_packet_number(VarInt::new(v as u64).expect("packet number below 2^62"))
}

fn at(input: &[V], i: usize) -> V {
    input.get(i).copied().unwrap_or(0)
}

/// case = [init_ns; s1; s2; s3; sent_us; pn; largest; now_us; thr_direct]
/// output [smoothed; latest; thr; code; lost_time_us]
fn loss(input: &[V]) -> Vec<V> {
    let mut r = RttEstimator::new(Duration::from_nanos(at(input, 0) as u64));
    for i in 1..=3 {
        let s = at(input, i);
        if s != 0 {
            r.update_rtt(
                Duration::ZERO,
                Duration::from_nanos(s as u64),
                ts(1),
                false,
                PacketNumberSpace::ApplicationData,
            );
        }
    }
    let sent = ts(at(input, 4));
    let now = ts(at(input, 7));
    let thr = if at(input, 8) == 0 {
        r.loss_time_threshold()
    } else {
        Duration::from_nanos(at(input, 8) as u64)
    };
    let sp = PacketNumberSpace::ApplicationData;
    let o = loss::detect(
        thr,
        sent,
        loss::K_PACKET_THRESHOLD,
        pn(sp, at(input, 5)),
        pn(sp, at(input, 6)),
        now,
    );
    let (code, lt) = match o {
        loss::Outcome::Lost => (1, 0),
        loss::Outcome::NotLostYet { lost_time } => (0, ts_us(lost_time)),
    };
    vec![ns(r.smoothed_rtt()), ns(r.latest_rtt()), ns(thr), code, lt]
}

/// case = init_ns :: ops of 8 integers [code; a; b; c; d; backoff; pspace; _]
fn rtt(input: &[V]) -> Vec<V> {
    let mut out = vec![];
    if input.is_empty() {
        return out;
    }
    let mut r = RttEstimator::new(Duration::from_nanos(input[0] as u64));
    let mut i = 1;
    while i + 8 <= input.len() {
        let o = &input[i..i + 8];
        i += 8;
        match o[0] {
            1 => r.update_rtt(
                Duration::from_nanos(o[1] as u64),
                Duration::from_nanos(o[2] as u64),
                ts(1),
                o[3] != 0,
                space(o[4]),
            ),
            2 => r.on_max_ack_delay(
                MaxAckDelay::try_from(VarInt::new(o[1] as u64).expect("below 2^62")).expect("max_ack_delay"),
            ),
            3 => r.on_persistent_congestion(),
            _ => {}
        }
        let bo = o[5] as u32;
        out.push(ns(r.latest_rtt()));
        out.push(ns(r.min_rtt()));
        out.push(ns(r.smoothed_rtt()));
        out.push(ns(r.rttvar()));
        out.push(r.first_rtt_sample().is_some() as V);
        out.push(ns(r.loss_time_threshold()));
        out.push(ns(r.persistent_congestion_threshold()));
        out.push(ns(r.pto_period(bo, space(o[6]))));
        out.push(ns(r.pto_period(bo * 2, space(o[6]))));
    }
    out
}

/// case = ops of 4 integers [code; a; b; _]; after each op [ready?; transmissions; armed?; expiration_us]
fn pto(input: &[V]) -> Vec<V> {
    let mut out = vec![];
    let mut p = Pto::default();
    let mut i = 0;
    while i + 4 <= input.len() {
        let o = &input[i..i + 4];
        i += 4;
        let mut ready = false;
        match o[0] {
            1 => ready = p.on_timeout(o[1] != 0, ts(o[2])).is_ready(),
            2 => p.update(ts(o[1]), Duration::from_nanos(o[2] as u64)),
            3 => p.cancel(),
            4 => {
                if p.transmissions() > 0 {
                    p.on_transmit_once()
                }
            }
            5 => p.force_transmit(),
            _ => {}
        }
        out.push(ready as V);
        out.push(p.transmissions() as V);
        let e = p.next_expiration();
        out.push(e.is_some() as V);
        out.push(e.map(ts_us).unwrap_or(0));
    }
    out
}

/// persistent_congestion::Calculator: case = [has_first; first_ts_us; cpath; (gap; dt_us; ack_eliciting; path)*]
/// output: persistent_congestion_duration() in ns after each lost packet
fn pc(input: &[V]) -> Vec<V> {
    use s2n_quic_core::{
        frame::ack_elicitation::AckElicitation, inet::ExplicitCongestionNotification, path,
        recovery::{persistent_congestion::Calculator, SentPacketInfo},
        transmission,
    };
    let first = if at(input, 0) != 0 { Some(ts(at(input, 1))) } else { None };
    let cpath = unsafe { path::Id::new(at(input, 2) as u8) };
    let mut calc = Calculator::new(first, cpath);
    let sp = PacketNumberSpace::ApplicationData;
    let mut out = vec![];
    let (mut pnum, mut time, mut started) = (0u64, 1u64, false);
    let mut i = 3;
    while i + 4 <= input.len() {
        let o = &input[i..i + 4];
        i += 4;
        pnum = if started { pnum + (o[0] as u64).max(1) } else { o[0] as u64 };
        started = true;
        time += o[1] as u64;
        let info = SentPacketInfo::new(
            true,
            1200,
            ts(time as V),
            if o[2] != 0 { AckElicitation::Eliciting } else { AckElicitation::NonEliciting },
            unsafe { path::Id::new(o[3] as u8) },
            ExplicitCongestionNotification::default(),
            transmission::Mode::Normal,
            (),
        );
        calc.on_lost_packet(pn(sp, pnum as V), &info);
        out.push(ns(calc.persistent_congestion_duration()));
    }
    out
}

/// recovery::Manager through the verif hook (see the hook for the op encoding)
fn manager(input: &[V]) -> Vec<V> {
    s2n_quic_transport::verif_hooks::recovery::run(input)
}

fn main() {
    main_with(&[("loss", loss), ("rtt", rtt), ("pto", pto), ("pc", pc), ("manager", manager), ("manager_acks", manager)]);
}
