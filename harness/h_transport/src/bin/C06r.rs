//! C06r: the real stateless reset token bookkeeping (PeerIdRegistry + ConnectionIdMapper) through
//! the hook driver s2n_quic_transport::verif_hooks::reset_map.
use h_common::{main_with, V};
use s2n_quic_transport::verif_hooks::reset_map::ResetMap;

/// resetmap: ops 0 flag tok | 1 c seq tok | 2 c | 3 c | 4 len bytes | 5 c seq tok | 6 c pn | 7 c pn
fn resetmap(input: &[V]) -> Vec<V> {
    let mut m = ResetMap::new();
    let mut out = vec![];
    let mut i = 0usize;
    let mut opened = 0u64;
    let get = |i: usize| input.get(i).copied();
    let conn = |m: &ResetMap, c: V| -> Option<usize> {
        if c >= 0 && m.is_open(c as usize) {
            Some(c as usize)
        } else {
            None
        }
    };
    while i < input.len() {
        match input[i] {
            0 => {
                let (Some(flag), Some(tok)) = (get(i + 1), get(i + 2)) else { break };
                i += 3;
                opened += 1;
                m.open(1_000_000 + opened, if flag != 0 { Some(tok as u128) } else { None });
            }
            1 | 5 => {
                let (Some(c), Some(seq), Some(tok)) = (get(i + 1), get(i + 2), get(i + 3)) else { break };
                let rpt = if input[i] == 5 { seq } else { 0 };
                i += 4;
                match conn(&m, c) {
                    Some(k) => out.push(m.on_new_connection_id_frame(k, seq as u64, rpt as u64, (c * 256 + seq) as u64, tok as u128)),
                    None => out.push(9),
                }
            }
            2 => {
                let Some(c) = get(i + 1) else { break };
                i += 2;
                match conn(&m, c) {
                    Some(k) => out.push(m.consume_new_id(k)),
                    None => out.push(9),
                }
            }
            3 => {
                let Some(c) = get(i + 1) else { break };
                i += 2;
                match conn(&m, c) {
                    Some(k) => {
                        m.close(k);
                        out.push(0)
                    }
                    None => out.push(9),
                }
            }
            4 => {
                let Some(len) = get(i + 1) else { break };
                let len = len as usize;
                let d: Vec<u8> = input.get(i + 2..(i + 2 + len).min(input.len())).unwrap_or(&[]).iter().map(|b| *b as u8).collect();
                i += 2 + len;
                out.push(m.on_datagram(&d).map(|k| k as V + 1).unwrap_or(0));
            }
            6 | 7 => {
                let (Some(c), Some(pn)) = (get(i + 1), get(i + 2)) else { break };
                let op = input[i];
                i += 3;
                match conn(&m, c) {
                    Some(k) if op == 6 => out.push(m.transmit(k, 16, pn as u64)),
                    Some(k) => {
                        m.ack(k, pn as u64);
                        out.push(0)
                    }
                    None => out.push(9),
                }
            }
            _ => break,
        }
    }
    out
}

fn main() {
    main_with(&[("resetmap", resetmap)]);
}
