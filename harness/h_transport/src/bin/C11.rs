//! C11 drivers: amplification ledger of an unvalidated server path, stateless reset sizing,
//! version negotiation decision.
use h_common::{main_with, Cur, V};
use s2n_quic_core::transmission;
use s2n_quic_transport::verif_hooks::{amplification, misc};

/// ops: `0 n` datagram of n bytes received; `1 n` try to send a datagram of n bytes (the
/// transmission path asks `transmission_constraint` first, then clamps the size);
/// `2` a Handshake packet was processed (address validated); `3` query only.
/// output per op: recv -> [outcome, at_limit]; send -> [bytes_sent (0 = blocked), at_limit];
/// validate/query -> [at_limit]
fn amp(input: &[V]) -> Vec<V> {
    let mut c = Cur::new(input);
    let mut out = vec![];
    let server = c.next() != 0;
    if server {
        let mut p = amplification::server_path();
        run_amp(&mut c, &mut out, &mut p);
    } else {
        let mut p = amplification::client_path();
        run_amp(&mut c, &mut out, &mut p);
    }
    out
}

fn run_amp<C: s2n_quic_transport::endpoint::Config>(
    c: &mut Cur,
    out: &mut Vec<V>,
    p: &mut s2n_quic_transport::path::Path<C>,
) {
    use s2n_quic_transport::path::AmplificationOutcome as O;
    while !c.done() {
        match c.next() {
            0 => {
                let n = c.next() as usize;
                let o = p.on_bytes_received(n);
                out.push(match o {
                    O::Unchanged => 0,
                    O::ActivePathUnblocked => 1,
                    O::InactivePathUnblocked => 2,
                });
            }
            1 => {
                let n = c.next() as usize;
                let blocked = matches!(
                    p.transmission_constraint(),
                    transmission::Constraint::AmplificationLimited
                );
                if blocked != p.at_amplification_limit() {
                    out.push(-7);
                }
                if blocked || n == 0 {
                    out.push(0);
                } else {
                    let sz = p.clamp_datagram_size(n, transmission::Mode::Normal);
                    p.on_bytes_transmitted(sz);
                    out.push(sz as V);
                }
            }
            2 => p.on_handshake_packet(),
            _ => {}
        }
        out.push(p.at_amplification_limit() as V);
    }
}

/// input [max_tag_len, triggering_len, seed]; output [packets, min indistinguishable len, (len, first byte >> 6)]
fn reset(input: &[V]) -> Vec<V> {
    let mut c = Cur::new(input);
    let tag = (c.next() as usize).min(64);
    let trig = c.next() as usize;
    let seed = c.next() as u8;
    let (lens, firsts) = misc::stateless_reset_for(tag, trig, seed);
    let mut out = vec![
        lens.len() as V,
        s2n_quic_core::packet::stateless_reset::min_indistinguishable_packet_len(tag) as V,
    ];
    for (l, f) in lens.iter().zip(firsts.iter()) {
        out.push(*l as V);
        out.push((*f >> 6) as V);
    }
    out
}

fn varint2(v: usize) -> [u8; 2] {
    [0x40 | ((v >> 8) as u8 & 0x3f), v as u8]
}

/// builds a datagram whose first packet has the given kind / version / total length
/// kind: 0 short, 1 version negotiation, 2 initial, 3 0-RTT, 4 handshake, 5 retry
fn build(kind: V, version: u32, len: usize, salt: u8, dlen: usize, slen: usize) -> Vec<u8> {
    let mut d = vec![];
    let dcid = vec![salt; dlen];
    let scid = vec![salt ^ 0x55; slen];
    match kind {
        0 => {
            d.push(0x40 | (salt & 0x3f));
            d.extend_from_slice(&[salt; 20]);
        }
        1 => {
            d.push(0x80 | (salt & 0x7f));
            d.extend_from_slice(&0u32.to_be_bytes());
            d.push(dlen as u8);
            d.extend_from_slice(&dcid);
            d.push(slen as u8);
            d.extend_from_slice(&scid);
            d.extend_from_slice(&0x1u32.to_be_bytes());
            // the list of versions fills the rest of the datagram (a multiple of 4 bytes)
            while d.len() + 4 <= len {
                d.extend_from_slice(&0xff00001du32.to_be_bytes());
            }
            return d;
        }
        5 => {
            d.push(0xf0);
            d.extend_from_slice(&version.to_be_bytes());
            d.push(dlen as u8);
            d.extend_from_slice(&dcid);
            d.push(slen as u8);
            d.extend_from_slice(&scid);
            d.extend_from_slice(&[salt; 24]); // token (8) + integrity tag (16)
        }
        _ => {
            let ty: u8 = match kind {
                2 => 0xc0,
                3 => 0xd0,
                _ => 0xe0,
            };
            d.push(ty | 0x03);
            d.extend_from_slice(&version.to_be_bytes());
            d.push(dlen as u8);
            d.extend_from_slice(&dcid);
            d.push(slen as u8);
            d.extend_from_slice(&scid);
            if kind == 2 {
                d.push(0); // token length
            }
            let hdr = d.len() + 2;
            let rest = len.saturating_sub(hdr).max(20);
            d.extend_from_slice(&varint2(rest));
        }
    }
    while d.len() < len {
        d.push(salt.wrapping_add(d.len() as u8));
    }
    d
}

/// input [server, kind, version, len, salt, dcid len, scid len]; output [decoded, kind seen, accepted, n sent, len sent...]
fn vn(input: &[V]) -> Vec<V> {
    let mut c = Cur::new(input);
    let server = c.next() != 0;
    let kind = c.next();
    let version = c.next() as u32;
    let len = (c.next() as usize).min(3000);
    let salt = c.next() as u8;
    let dlen = (c.next() as usize).min(20);
    let slen = (c.next() as usize).min(20);
    let mut d = build(kind, version, len, salt, dlen, slen);
    let actual_len = d.len();
    let r = misc::vn_on_datagram(server, &mut d);
    let mut out = vec![
        actual_len as V,
        r.decoded as V,
        r.kind as V,
        r.version as V,
        r.accepted as V,
        r.sent.len() as V,
    ];
    for l in r.sent {
        out.push(l as V);
    }
    out
}

fn main() {
    main_with(&[("amp", amp), ("reset", reset), ("vn", vn)]);
}
