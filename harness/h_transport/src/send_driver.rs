//! Shared driver of the send side of streams for C12 and C03 (`ss` component).
//!
//! case = [salt, max_data0, nstreams(1..4), max_buf_sel, win_0 .. win_{n-1}, ops...]
//! ops (each starts with an op code; `k` = stream index mod nstreams):
//!   1 k len            push `len` position-keyed bytes           -> out: 1 k accepted
//!   2 k                finish                                    -> out: 2 k r
//!   3 k code           reset (application)                       -> out: 3 k r
//!   4 k code           STOP_SENDING from the peer                -> out: 4 k
//!   5 t cap c m        transmit one packet; t = 0: all streams, t = i+1: stream i
//!                                                                -> out: 5 pn nframes frame*
//!   6 lo n             ack packets lo .. lo+n                    -> out: 6
//!   7 lo n             lose packets lo .. lo+n                   -> out: 7
//!   8 k v              MAX_STREAM_DATA                           -> out: 8 k
//!   9 v                MAX_DATA                                  -> out: 9
//!   anything else      ends the case
//! after every op the observable state is appended:
//!   conn_total conn_available then per stream: send_state sender_state flow_state acquired interest
//! frame = kind sid value code fin len byte*
use h_common::{Cur, V};
use s2n_quic_transport::verif_hooks::data_sender as hook;

pub fn payload_byte(salt: u64, k: u64, o: u64) -> u8 {
    let x = (o
        .wrapping_mul(2654435761)
        .wrapping_add((salt + 131 * k).wrapping_mul(40503)))
        % 4294967296;
    ((x / 65536) % 256) as u8
}

pub fn max_buf_of(sel: u64) -> u32 {
    match sel % 4 {
        0 => u32::MAX,
        1 => 1,
        2 => 64,
        _ => 1000,
    }
}

const VMAX: u64 = (1 << 62) - 1;
/// payload capacities stay below u16::MAX + 1: the value `transmit_interval` clamps capacities to, plus one
/// (= DataSender.cap_bound in the Coq model, the hypothesis of C03_packet_within_limits)
pub const CAP_BOUND: u64 = u16::MAX as u64 + 1;

fn push_frames(out: &mut Vec<V>, frames: &[hook::Recorded]) {
    out.push(frames.len() as V);
    for f in frames {
        out.push(f.kind as V);
        out.push(f.stream_id as V);
        out.push(f.value as V);
        out.push(f.code as V);
        out.push(f.fin as V);
        out.push(f.data.len() as V);
        for b in &f.data {
            out.push(*b as V);
        }
    }
}

pub fn ss(input: &[V]) -> Vec<V> {
    let mut c = Cur::new(input);
    let salt = c.u64() % 65536;
    let max_data0 = c.u64().min(VMAX);
    let n = (c.u64() % 4 + 1) as usize;
    let max_buf = max_buf_of(c.u64());
    let mut conn = hook::Conn::new(max_data0);
    let mut pushed = vec![0u64; n];
    for i in 0..n {
        let w = c.u64().min(VMAX);
        // client-initiated bidirectional stream ids 0, 4, 8, ..
        conn.add_stream(4 * i as u64, w, max_buf);
    }
    let mut out: Vec<V> = vec![];
    while !c.done() {
        let op = c.next();
        match op {
            1 => {
                let k = c.usize() % n;
                let len = (c.u64() % 4096) as usize;
                let data: Vec<u8> = (0..len as u64)
                    .map(|i| payload_byte(salt, k as u64, pushed[k] + i))
                    .collect();
                let r = conn.push(k, data);
                if r > 0 {
                    pushed[k] += r as u64;
                }
                out.extend([1, k as V, r as V]);
            }
            2 => {
                let k = c.usize() % n;
                let r = conn.finish(k);
                out.extend([2, k as V, r as V]);
            }
            3 => {
                let k = c.usize() % n;
                let code = c.u64() % 1024;
                let r = conn.reset(k, code);
                out.extend([3, k as V, r as V]);
            }
            4 => {
                let k = c.usize() % n;
                let code = c.u64() % 1024;
                conn.stop_sending(k, code);
                out.extend([4, k as V]);
            }
            5 => {
                let t = c.usize() % (n + 1);
                let cap = (c.u64() % CAP_BOUND) as usize;
                let cons = hook::constraint_of(c.u64());
                let mode = hook::mode_of(c.u64());
                let pn = conn.next_packet_number;
                let frames = conn.transmit(if t == 0 { None } else { Some(t - 1) }, cap, cons, mode);
                out.extend([5, pn as V]);
                push_frames(&mut out, &frames);
            }
            6 => {
                let lo = c.u64() % 65536;
                let cnt = c.u64() % 65536;
                conn.ack(lo, lo + cnt);
                out.push(6);
            }
            7 => {
                let lo = c.u64() % 65536;
                let cnt = c.u64() % 65536;
                conn.loss(lo, lo + cnt);
                out.push(7);
            }
            8 => {
                let k = c.usize() % n;
                let v = c.u64().min(VMAX);
                conn.max_stream_data(k, v);
                out.extend([8, k as V]);
            }
            9 => {
                let v = c.u64().min(VMAX);
                conn.max_data(v);
                out.push(9);
            }
            _ => break,
        }
        out.push(conn.conn_total() as V);
        out.push(conn.conn_available() as V);
        for k in 0..n {
            let o = conn.obs(k);
            out.push(o.send_state as V);
            out.push(o.sender_state as V);
            out.push(o.flow_state as V);
            out.push(o.acquired as V);
            out.push(o.interest as V);
        }
    }
    out.push(conn.constraint_breaches as V);
    out
}
