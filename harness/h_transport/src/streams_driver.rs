//! `st` component (C12 stream id sequencing, C03 MAX_STREAMS): the real DefaultStreamManager.
//! case = [server, peer_bidi, peer_uni, local_bidi, local_uni, ops...]
//!   1 t        open a local stream of type t (0 bidirectional, 1 unidirectional)
//!                                              -> out: 1 t r   (r = stream id, -1 pending, -2 error)
//!   2 t v      MAX_STREAMS(type t, v)          -> out: 2
//!   4 h t      application handle h (own open token) polls open of a stream of type t
//!                                              -> out: 4 t r
//!   3 j        close the j-th (mod count) opened unidirectional stream: application reset, the
//!              RESET_STREAM is transmitted and acknowledged           -> out: 3
use h_common::{Cur, V};
use s2n_quic_transport::verif_hooks::streams as hook;

const LIM: [u64; 8] = [0, 1, 2, 3, 5, 8, 100, 1 << 60];

pub fn st(input: &[V]) -> Vec<V> {
    let mut c = Cur::new(input);
    let server = c.u64() % 2 == 1;
    let peer_bidi = c.u64().min(1 << 60);
    let peer_uni = c.u64().min(1 << 60);
    let local_bidi = LIM[(c.u64() % 7) as usize];
    let local_uni = LIM[(c.u64() % 7) as usize];
    let mut s = hook::Streams::new(server, peer_bidi, peer_uni, local_bidi, local_uni);
    let mut uni: Vec<(u64, bool)> = vec![];
    let mut out: Vec<V> = vec![];
    let mut opened = 0;
    while !c.done() {
        match c.next() {
            1 => {
                let t = c.u64() % 2;
                if opened >= 64 {
                    break;
                }
                match s.open(t) {
                    Ok(Some(id)) => {
                        opened += 1;
                        if t == 1 {
                            uni.push((id, false));
                        }
                        out.extend([1, t as V, id as V]);
                    }
                    Ok(None) => out.extend([1, t as V, -1]),
                    Err(()) => out.extend([1, t as V, -2]),
                }
            }
            4 => {
                let h = c.usize() % 4;
                let t = c.u64() % 2;
                if opened >= 64 {
                    break;
                }
                match s.open_with(h, t) {
                    Ok(Some(id)) => {
                        opened += 1;
                        if t == 1 {
                            uni.push((id, false));
                        }
                        out.extend([4, t as V, id as V]);
                    }
                    Ok(None) => out.extend([4, t as V, -1]),
                    Err(()) => out.extend([4, t as V, -2]),
                }
            }
            2 => {
                let t = c.u64() % 2;
                let v = c.u64().min(1 << 60);
                s.max_streams(t, v);
                out.push(2);
            }
            3 => {
                let j = c.usize();
                if !uni.is_empty() {
                    let j = j % uni.len();
                    if !uni[j].1 {
                        uni[j].1 = true;
                        s.reset(uni[j].0, 3);
                        let first = s.next_packet_number;
                        for _ in 0..4 {
                            if s.transmit(1200).is_empty() {
                                break;
                            }
                        }
                        if s.next_packet_number > first {
                            s.ack(first, s.next_packet_number - 1);
                        }
                    }
                }
                out.push(3);
            }
            _ => break,
        }
    }
    out
}
