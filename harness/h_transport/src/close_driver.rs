//! `cs` component (C12 close_only_close): the real CloseSender with a virtual clock.
//! case = [timeout_ms, rtt_ms, packet_len, ops...]
//! After every event the sender gets an opportunity to send (as the connection's event loop gives it);
//! s = 0 nothing sent, 1 the close packet was sent, 2 something else was sent.
//!   (start)                                               -> out: 9 s
//!   1 dt   advance the clock by dt ms, on_timeout         -> out: 1 r s (r = 1 closing period over)
//!   2      a datagram is received                          -> out: 2 s
//!   3      one more opportunity to send                    -> out: 3 s
use h_common::{Cur, V};
use s2n_quic_transport::verif_hooks::close_sender as hook;

pub fn cs(input: &[V]) -> Vec<V> {
    let mut c = Cur::new(input);
    let timeout = c.u64() % 100_000;
    let rtt = c.u64() % 5_000;
    let plen = (c.u64() % 64 + 1) as usize;
    let packet: Vec<u8> = (0..plen).map(|i| (i * 7 + 3) as u8).collect();
    let mut s = hook::Closer::new(&packet, timeout);
    let mut out: Vec<V> = vec![];
    let send = |s: &mut hook::Closer| -> V {
        match s.try_transmit() {
            None => 0,
            Some(b) if b == packet => 1,
            Some(_) => 2,
        }
    };
    let first = send(&mut s);
    out.extend([9, first]);
    while !c.done() {
        match c.next() {
            1 => {
                let dt = c.u64() % 10_000;
                let r = s.advance(dt) as V;
                let t = send(&mut s);
                out.extend([1, r, t]);
            }
            2 => {
                s.datagram_received(rtt);
                let t = send(&mut s);
                out.extend([2, t]);
            }
            3 => {
                let t = send(&mut s);
                out.extend([3, t]);
            }
            _ => break,
        }
    }
    out
}
