//! `cs` component (C12 close_only_close): the real CloseSender with a virtual clock.
//! case = [timeout_ms, rtt_ms, packet_len, ops...]
//!   1 dt   advance the clock by dt ms, on_timeout         -> out: 1 r   (r = 1 closing period over)
//!   2      a datagram is received                          -> out: 2
//!   3      opportunity to send                             -> out: 3 r   (r = 0 nothing sent, 1 the close
//!                                                             packet was sent, 2 something else was sent)
use h_common::{Cur, V};
use s2n_quic_transport::verif_hooks::close_sender as hook;

pub fn cs(input: &[V]) -> Vec<V> {
    let mut c = Cur::new(input);
    let timeout = c.u64() % 100_000;
    let rtt = c.u64() % 5_000;
    let plen = (c.u64() % 64 + 1) as usize;
    let packet: Vec<u8> = (0..plen).map(|i| (i * 7 + 3) as u8).collect();
    let mut s = hook::Closer::new(&packet, timeout);
    let mut out: Vec<V> = vec![];
    while !c.done() {
        match c.next() {
            1 => {
                let dt = c.u64() % 10_000;
                out.extend([1, s.advance(dt) as V]);
            }
            2 => {
                s.datagram_received(rtt);
                out.push(2);
            }
            3 => {
                let r = match s.try_transmit() {
                    None => 0,
                    Some(b) if b == packet => 1,
                    Some(_) => 2,
                };
                out.extend([3, r]);
            }
            _ => break,
        }
    }
    out
}
